#!/usr/bin/env python3
"""Process-level checks (interfaces I9, I10 of DESIGN.md): C19 (a failed generation never damages an
existing output file), C14 (byte-identical output across runs), C13 (termination on every input text)."""
import concurrent.futures as cf, hashlib, json, os, random, re, shutil, subprocess, sys, time
sys.path.insert(0, os.path.dirname(os.path.abspath(__file__)))
import vlib, gram, genrun

TARGETS = [('go', ['generate', 'go'], '.go'), ('go-u', ['generate', 'go', '-u'], '.go'), ('go-o', ['generate', 'go', '-o'], '.go'),
           ('go-o-u', ['generate', 'go', '-o', '-u'], '.go'), ('ts', ['generate', 'typescript'], '.ts')]

HEAD = '%{\npackage main\nimport "fmt"\n%}\n%union {\n val int\n}\n'
EPI = '\nfunc GetToken(input string, valTy *ValType, pos *int) int { return -1 }\nvar _ = fmt.Sprint\n// EPILOGUE-END-MARKER\n'


def yfile(decls, rules, head=HEAD, epi=EPI, second_sep=True):
    return head + decls + '%%\n' + rules + ('%%' + epi if second_sep else '')


# ---------------------------------------------------------------- C19 fault enumeration
# one or more failing inputs per kind of input-caused failure (DESIGN 5.C19); `stage` is the step of
# FsModel.gen_steps at which the model says the generation stops
def c19_faults():
    ok_decl = '%token <val> NUM\n%type <val> e\n%start e\n'
    F = []
    F.append(('lex_stray_char', 'lex', yfile('%token <val> NUM @\n%type <val> e\n', "e : NUM { $$ = $1 } ;\n")))
    # a character that starts no token, in the rules section, at a point where the text before it is a complete grammar
    F.append(('lex_stray_paren_in_rules', 'lex', yfile(ok_decl, "e : NUM { $$ = $1 } | ( e ) { $$ = $2 } ;\n")))
    F.append(('lex_stray_comma_in_rules', 'lex', yfile(ok_decl, "e : NUM { $$ = $1 } , ;\n")))
    F.append(('lex_stray_plus_in_rules', 'lex', yfile(ok_decl, "e : NUM { $$ = $1 }\n  | e + NUM { $$ = $1 + $3 } ;\n")))
    F.append(('lex_stray_at_after_rules', 'lex', yfile(ok_decl, "e : NUM { $$ = $1 } ;\n@\n")))
    F.append(('lex_unclosed_comment', 'lex', yfile('%token <val> NUM /* never closed\n', "e : NUM ;\n")))
    F.append(('lex_unbalanced_action', 'lex', yfile(ok_decl, "e : NUM { $$ = $1 ;\n")))
    F.append(('lex_bad_char_literal', 'lex', yfile(ok_decl, "e : 'ab' NUM ;\n")))
    F.append(('lex_unclosed_prologue', 'lex', '%{\npackage main\n%union {\n val int\n}\n%token NUM\n%%\ne : NUM ;\n%%\n'))
    F.append(('syntax_no_section', 'syntax', HEAD + ok_decl))
    F.append(('syntax_number_in_rules', 'syntax', yfile(ok_decl, "e : NUM 42 ;\n")))
    F.append(('syntax_prec_without_symbol', 'syntax', yfile(ok_decl, "e : NUM %prec ;\n")))
    F.append(('undefined_symbol', 'visit', yfile(ok_decl, "e : NUM foo ;\n")))
    F.append(('undefined_start', 'build', yfile('%token <val> NUM\n%type <val> e\n%start prog\n', "e : NUM ;\n")))
    F.append(('type_without_rule', 'build', yfile(ok_decl + '%type <val> ghost\n', "e : NUM ;\n")))
    F.append(('unproductive', 'build', yfile(ok_decl + '%type <val> f\n', "e : NUM | f ;\nf : f NUM ;\n")))
    F.append(('unproductive_start', 'build', yfile(ok_decl, "e : e NUM ;\n")))
    F.append(('dollar_too_big', 'reduce', yfile(ok_decl, "e : NUM NUM { $$ = $1 + $3 } ;\n")))
    F.append(('dollar_zero', 'reduce', yfile(ok_decl, "e : NUM { $$ = $0 } ;\n")))
    F.append(('dollar_on_empty_rule', 'reduce', yfile(ok_decl, "e : { $$ = $1 } | NUM e ;\n")))
    F.append(('dollar_untyped_lhs', 'reduce', yfile('%token <val> NUM\n%start e\n', "e : NUM { $$ = $1 } ;\n")))
    F.append(('dollar_untyped_rhs', 'reduce', yfile('%token NUM\n%type <val> e\n%start e\n', "e : NUM { $$ = $1 } ;\n")))
    F.append(('dollar_late_rule', 'reduce', yfile(ok_decl + '%type <val> t\n', "e : t { $$ = $1 } | e '+' t { $$ = $1 + $3 } ;\nt : NUM { $$ = $1 } | '(' e ')' { $$ = $4 } ;\n")))
    return F


def c19_good():
    big = yfile("%token <val> NUM\n%type <val> e t f\n%left '+' '-'\n%left '*' '/'\n%start e\n",
                "e : e '+' t { $$ = $1 + $3 } | e '-' t { $$ = $1 - $3 } | t { $$ = $1 } ;\n"
                "t : t '*' f { $$ = $1 * $3 } | t '/' f { $$ = $1 / $3 } | f { $$ = $1 } ;\nf : NUM { $$ = $1 } | '(' e ')' { $$ = $2 } ;\n",
                epi=EPI + '// ' + 'x' * 900 + '\n// BIG-END\n')
    small = yfile('%token <val> NUM\n%type <val> e\n%start e\n', "e : NUM { $$ = $1 } ;\n", epi=EPI + '// SMALL-END\n')
    noepi = yfile('%token <val> NUM\n%type <val> e\n%start e\n', "e : NUM { $$ = $1 } ;\n", second_sep=False)
    # a machine-written table on one line of 70000 bytes in the epilogue, and one in an action
    wide = yfile('%token <val> NUM\n%type <val> e\n%start e\n', "e : NUM { $$ = $1 } ;\n", epi=EPI + '// ' + '0123456789' * 7000 + '\n// WIDE-END\n')
    wideact = yfile('%token <val> NUM\n%type <val> e\n%start e\n', "e : NUM { $$ = $1 /* " + 'abcdefghij' * 7000 + " */ } ;\n", epi=EPI + '// WIDEACT-END\n')
    # the section mark inside the epilogue (a format string with an escaped percent sign, a comment)
    pct = yfile('%token <val> NUM\n%type <val> e\n%start e\n', "e : NUM { $$ = $1 } ;\n",
                epi='\n// 100%% of it\nfunc pct(v int) string { return fmt.Sprintf("%d%%\\n", v) }\n/* %% */\n' + EPI + '// PCT-END\n')
    return [('big', big), ('small', small), ('no_epilogue', noepi), ('wide_line', wide), ('wide_action', wideact), ('percent_epilogue', pct)]


def c19_foreign():
    """Well-formed yacc whose embedded code is not valid in the target language (yaccgo copies code, it does not read it): whatever
    yaccgo does with these, the rule is the same - exit 0 with a complete file, or a failure with the old file untouched."""
    decl = '%token <val> NUM\n%type <val> e\n%start e\n'
    return [
        ('ternary_in_action', yfile(decl, "e : NUM { $$ = $1 > 1000 ? 1000 : $1 } | e '+' NUM { $$ = $1 + $3 } ;\n")),
        ('stray_paren_in_action', yfile(decl, "e : NUM { $$ = $1) } ;\n")),
        ('c_style_epilogue', yfile(decl, "e : NUM { $$ = $1 } ;\n", epi='\nint main(void) { return yyparse(); }\n#include <stdio.h>\n' + EPI)),
        ('bad_prologue', yfile(decl, "e : NUM { $$ = $1 } ;\n", head=HEAD.replace('import "fmt"', 'import ("fmt"', 1))),
        ('keyword_in_union', yfile(decl, "e : NUM { $$ = $1 } ;\n", head=HEAD.replace(' val int\n', ' val int\n func for\n', 1))),
    ]


def ts_variant(text):
    return text.replace('package main\nimport "fmt"\n', '"use strict";\n').replace(' val int\n', ' val :number = 0;\n') \
               .replace('func GetToken(input string, valTy *ValType, pos *int) int { return -1 }\nvar _ = fmt.Sprint\n',
                        'function GetToken(input :string, model:{ValType :ValType, pos :number}) :number { return -1 }\n')


def model_fs(cases):
    """FsModel (extracted): for each case the model's prediction of the file afterwards.
    cases: list of (tag, stage or 'none', old bytes id, new bytes id) ; returns dict tag -> 'old' | 'new'"""
    text = ''.join('F %s %s\n' % (tag, stage) for (tag, stage) in cases)
    lines = vlib.model_eval(text)
    out = {}
    for ln in lines:
        f = ln.split()
        if f and f[0] == 'F':
            out[f[1]] = f[2]
    return out


def model_action_verdicts(texts, work):
    """For each grammar text: does the Coq model of the action substitution (EmitAction.subst_action, on the implementation's
    own action texts and tags) stop at some rule?  Returns list of None (front end refuses) / True (stops) / False."""
    hx = lambda t: t.encode('utf8').hex() or '-'
    paths = []
    for i, t in enumerate(texts):
        p = os.path.join(work, 'act%d.y' % i)
        open(p, 'w').write(t)
        paths.append(p)
    dumps = vlib.run_dump(paths)
    cmds = []
    for i, d in enumerate(dumps):
        if not d.get('ok'):
            continue
        tag_of = {s['id']: s['tag'] for s in d['symbols']}
        for ri, r in enumerate(d['rules']):
            if ri:
                cmds.append('B a%dr%d 0 %s %d %s %s\n' % (i, ri, hx(tag_of.get(r['lhs'], '')), len(r['rhs'] or []),
                                                       ' '.join(hx(tag_of.get(x, '')) for x in (r['rhs'] or [])), hx(r['action'] or '')))
    stops = {}
    for ln in vlib.model_eval_chunks(cmds):
        f = ln.split()
        if len(f) >= 3 and f[0] == 'B':
            i = int(f[1][1:].split('r')[0])
            stops[i] = stops.get(i, False) or f[2] == 'fail'
    return [None if not d.get('ok') else stops.get(i, False) for i, d in enumerate(dumps)]


def run_C19(ctx):
    bindir = vlib.build_impl()
    work = os.path.join(vlib.WORK, 'c19-%d' % os.getpid())
    shutil.rmtree(work, ignore_errors=True)
    os.makedirs(work)
    yaccgo = os.path.join(bindir, 'yaccgo')
    faults = c19_faults()
    goods = c19_good()
    pre = ('// PRE-EXISTING FILE, must survive a failed generation\n' + 'keep me %s\n' * 400) % tuple(range(400))
    stages = {}
    try:
        preds = model_fs([(name, stage) for (name, stage, _) in faults] + [(name, 'none') for (name, _) in goods])
        # the faults in semantic actions ($n out of range, untyped $$ / $n): the model of the substitution must stop exactly there
        av = model_action_verdicts([t for (_, _, t) in faults] + [t for (_, t) in goods], work)
        for (name, stage, want) in [(n, st, st == 'reduce') for (n, st, _) in faults] + [(n, 'none', False) for (n, _) in goods]:
            got = av.pop(0)
            ctx.evaluations += 1
            if got is not None and got != want:
                ctx.violation('no-failing-input-found', 'the model of the action substitution %s on %s, the fault list says the generation %s there'
                              % ('stops' if got else 'goes through', name, 'stops' if want else 'does not stop'), dict(fault=name, stage=stage), interface='I9')
        for (name, stage, text) in faults:
            for (tn, args, ext) in TARGETS:
                src = os.path.join(work, 'in.y')
                out = os.path.join(work, 'out' + ext)
                open(src, 'w').write(ts_variant(text) if tn == 'ts' else text)
                open(out, 'w').write(pre)
                try:
                    r = subprocess.run([yaccgo] + args + [src, out], capture_output=True, text=True, timeout=20)
                    rc, err = r.returncode, (r.stderr + r.stdout)[-400:]
                except subprocess.TimeoutExpired:
                    rc, err = None, 'TIMEOUT'
                after = open(out).read() if os.path.exists(out) else None
                ctx.evaluations += 1
                ctx.nontrivial.add((name, tn))
                case = dict(fault=name, target=tn, grammar_text=text, grammar_sha=vlib.sha(text), exit=rc, stderr=err)
                if rc == 0 and (after is None or not after.rstrip().endswith('// EPILOGUE-END-MARKER')):
                    ctx.violation('counterexample', '`yaccgo %s` on the faulty input %s exits 0 and leaves %s at the output path: neither the old file nor a complete output ending with the epilogue'
                                  % (' '.join(args), name, 'nothing' if after is None else 'a %d-byte file without the epilogue' % len(after)),
                                  dict(case, expected='failure with the file untouched, or a complete output', observed=(after or '')[-200:]), interface='I9')
                    continue
                if rc == 0:
                    ctx.violation('no-failing-input-found', 'C19 harness: the input %s was expected to be rejected (stage %s) but `yaccgo %s` exits 0; the fault list no longer matches the implementation'
                                  % (name, stage, ' '.join(args)), case, interface='I9')
                    continue
                if after != pre:
                    ctx.violation('counterexample', 'generation of %s (%s) fails with exit %s but the pre-existing output file was %s'
                                  % (name, ' '.join(args), rc, 'removed' if after is None else 'changed (%d -> %d bytes)' % (len(pre), len(after))),
                                  dict(case, expected='file untouched', observed=(after or '')[:200]), interface='I9')
                elif preds.get(name) != 'old':
                    ctx.violation('no-failing-input-found', 'FsModel predicts %r for a failure at stage %s, the implementation leaves the file untouched' % (preds.get(name), stage), case, interface='I9')
                if len(ctx.samples) < 4 and tn in ('go', 'ts'):
                    ctx.sample(dict(fault=name, target=tn, exit=rc, file_untouched=(after == pre), message=err.strip().splitlines()[-1][:160] if err.strip() else ''))
        # success: complete file, ending with the epilogue; a longer pre-existing file must not leave a tail
        for (name, text) in goods:
            for (tn, args, ext) in TARGETS:
                t = ts_variant(text) if tn == 'ts' else text
                src = os.path.join(work, 'in.y')
                open(src, 'w').write(t)
                outs = []
                for prefill in (None, pre * 3):
                    out = os.path.join(work, 'good' + ext)
                    if os.path.exists(out):
                        os.remove(out)
                    if prefill is not None:
                        open(out, 'w').write(prefill)
                    r = subprocess.run([yaccgo] + args + [src, out], capture_output=True, text=True, timeout=20)
                    outs.append((r.returncode, open(out).read() if os.path.exists(out) else None, (r.stderr + r.stdout)[-300:]))
                ctx.evaluations += 1
                ctx.nontrivial.add(('success', name, tn))
                epi = t.split('%%', 2)[2] if t.count('%%') >= 2 else ''
                case = dict(fault='none:' + name, target=tn, grammar_text=t, grammar_sha=vlib.sha(t))
                (rc0, fresh, e0), (rc1, over, e1) = outs
                if rc0 != 0 or rc1 != 0 or fresh is None:
                    ctx.violation('counterexample', 'generation of the well-formed grammar %s (%s) fails: exit %s/%s %s' % (name, ' '.join(args), rc0, rc1, e0 + e1), case, interface='I9')
                    continue
                if not fresh.rstrip('\n').endswith(epi.rstrip('\n')) or (epi and epi not in fresh):
                    ctx.violation('counterexample', 'successful generation of %s (%s): the output file does not end with the epilogue' % (name, ' '.join(args)),
                                  dict(case, observed=fresh[-300:], expected=epi[-300:]), interface='I9')
                if over != fresh:
                    ctx.violation('counterexample', 'successful generation of %s (%s) over a longer pre-existing file leaves %d bytes instead of the %d bytes of a fresh generation (tail: %r)'
                                  % (name, ' '.join(args), len(over or ''), len(fresh), (over or '')[-60:]), dict(case, observed=(over or '')[-300:], expected=fresh[-300:]), interface='I9')
                if preds.get(name) != 'new':
                    ctx.violation('no-failing-input-found', 'FsModel predicts %r for a successful generation' % preds.get(name), case, interface='I9')
                # an edit that does not change the length of the output (one character of the epilogue), regenerated over the previous
                # output: the file must be the new output (same size as the old one, different content)
                if 'EPILOGUE-END-MARKER' in t:
                    t2 = t.replace('EPILOGUE-END-MARKER', 'EPILOGUE-END-MARKEX')
                    open(src, 'w').write(t2)
                    out2 = os.path.join(work, 'good2' + ext)
                    if os.path.exists(out2):
                        os.remove(out2)
                    r1 = subprocess.run([yaccgo] + args + [src, out2], capture_output=True, text=True, timeout=20)
                    want2 = open(out2).read() if os.path.exists(out2) else None
                    open(out, 'w').write(fresh)
                    r2 = subprocess.run([yaccgo] + args + [src, out], capture_output=True, text=True, timeout=20)
                    got2 = open(out).read() if os.path.exists(out) else None
                    ctx.evaluations += 1
                    if r1.returncode != 0 or r2.returncode != 0 or want2 is None or got2 != want2 or 'EPILOGUE-END-MARKEX' not in (got2 or ''):
                        ctx.violation('counterexample', 'regeneration of %s (%s) after an edit that keeps the length of the output (exit %s): the file at the output path is %s'
                                      % (name, ' '.join(args), r2.returncode, 'still the previous output' if got2 == fresh else 'not the output of the edited grammar'),
                                      dict(case, grammar_text=t2, grammar_sha=vlib.sha(t2), observed=(got2 or '')[-200:], expected=(want2 or '')[-200:]), interface='I9')
        foreign = c19_foreign()
        for (name, text) in foreign:
            for (tn, args, ext) in TARGETS:
                t = ts_variant(text) if tn == 'ts' else text
                src = os.path.join(work, 'in.y')
                out = os.path.join(work, 'foreign' + ext)
                open(src, 'w').write(t)
                open(out, 'w').write(pre)
                try:
                    r = subprocess.run([yaccgo] + args + [src, out], capture_output=True, text=True, timeout=20)
                    rc, err = r.returncode, (r.stderr + r.stdout)[-400:]
                except subprocess.TimeoutExpired:
                    rc, err = None, 'TIMEOUT'
                after = open(out).read() if os.path.exists(out) else None
                ctx.evaluations += 1
                ctx.nontrivial.add(('foreign', name, tn))
                epi = t.split('%%', 2)[2] if t.count('%%') >= 2 else ''
                case = dict(fault='foreign:' + name, target=tn, grammar_text=t, grammar_sha=vlib.sha(t), exit=rc, stderr=err)
                if rc == 0:
                    if after is None or not after.rstrip('\n').endswith(epi.rstrip('\n')):
                        ctx.violation('counterexample', '`yaccgo %s` on %s (embedded code that is not valid in the target language) exits 0 but the file at the output path does not end with the epilogue' % (' '.join(args), name),
                                      dict(case, observed=(after or '')[-200:]), interface='I9')
                elif after != pre:
                    ctx.violation('counterexample', 'generation of %s (%s) fails with exit %s but the pre-existing output file was %s'
                                  % (name, ' '.join(args), rc, 'removed' if after is None else 'changed (%d -> %d bytes)' % (len(pre), len(after))),
                                  dict(case, expected='file untouched', observed=(after or '')[:200]), interface='I9')
        ctx.extra['foreign_code_cases'] = len(foreign)
        ctx.extra['fault_kinds'] = len(faults)
        ctx.extra['targets'] = [t[0] for t in TARGETS]
        ctx.extra['exhaustive'] = True
    finally:
        shutil.rmtree(work, ignore_errors=True)


# ---------------------------------------------------------------- C14 determinism
def c14_corpus(ctx):
    rnd = random.Random(ctx.seed * 31337 + 5)
    gs = []
    for k in ('expr', 'ambig_prec', 'nullable_chain', 'lalr_paths', 'includes_cycle', 'deep_nullable', 'dangling_else', 'rr_three', 'ring3', 'chain_two_contexts', 'ring2_nullable', 'expr3', 'unit_term3'):
        gs.append(('c_' + k, genrun.fix_tags(gram.curated()[k])))
    for i in range(6 if ctx.quick else 40):
        gs.append(('ring%d' % i, genrun.fix_tags(gram.ring_grammar(rnd, nullable=bool(i % 2)))))
    for i in range(16 if ctx.quick else 100):
        gs.append(('lay%d' % i, genrun.fix_tags(gram.layered_expr(rnd))))
    for i in range(5 if ctx.quick else 30):
        gs.append(('rrp%d' % i, genrun.fix_tags(gram.rr_prec_grammar(rnd))))
    for i in range(1 if ctx.quick else 6):
        gs.append(('manytok%d' % i, genrun.fix_tags(gram.many_token_grammar(rnd))))
    n = 14 if ctx.quick else 120
    for i in range(n):
        kind = i % 4
        if kind == 0:
            g = gram.random_usable(rnd, nT=rnd.randint(4, 7), nN=rnd.randint(3, 6), p_lit=0.1, max_alts=4)      # many auto-numbered tokens, many states
        elif kind == 1:
            g = gram.operator_grammar(rnd, nlev=rnd.randint(2, 4))
        elif kind == 2:
            g = gram.random_usable(rnd, nT=rnd.randint(2, 4), nN=rnd.randint(3, 6), p_term=0.35, max_alts=3)    # nullable / includes cycles
        else:
            g = gram.random_usable(rnd, nT=rnd.randint(3, 6), nN=rnd.randint(2, 4), p_prec=0.6)
        gs.append(('r%d' % i, genrun.fix_tags(g)))
    texts = [(name, genrun.go_text(g, 'main', False), genrun.ts_text(g, [])) for name, g in gs]
    # hand-written: right-recursive mutual cycle reached from several left contexts (includes-SCC with differing sets)
    chain = ('%{\npackage main\nimport "fmt"\n%}\n%union {\n v0 int\n}\n%token <v0> KEY VAL END DOT A B C D\n%type <v0> top chain tail\n%start top\n%%\n'
             'top : chain DOT { $$ = $1 } | A B C D chain DOT { $$ = $5 } | A chain END { $$ = $2 } ;\nchain : { $$ = 0 } | KEY tail { $$ = $2 } ;\ntail : VAL chain { $$ = $2 } | END { $$ = 1 } ;\n%%\n'
             'func GetToken(input string, valTy *ValType, pos *int) int { return -1 }\nvar _ = fmt.Sprint\n')
    texts.append(('h_chain', chain, chain.replace('package main\nimport "fmt"\n', '"use strict";\n').replace(' v0 int\n', ' v0 :number = 0;\n')
                  .replace('func GetToken(input string, valTy *ValType, pos *int) int { return -1 }\nvar _ = fmt.Sprint\n', 'function GetToken(input :string, model:{ValType :ValType, pos :number}) :number { return -1 }\n')))
    # hand-written: names that differ only in letter case (a token NUM and a nonterminal num, Expr / expr, 'a' / 'A'), all numbered automatically
    cased = ('%{\npackage main\nimport "fmt"\n%}\n%union {\n v0 int\n}\n%token <v0> NUM Id ID\n%type <v0> num Expr expr\n%left \'a\' \'A\'\n%start Expr\n%%\n'
             'Expr : expr { $$ = $1 } | Expr \'a\' expr { $$ = $1 + $3 } | Expr \'A\' expr { $$ = $1 - $3 } ;\nexpr : num { $$ = $1 } | Id { $$ = $1 } | ID { $$ = $1 } ;\nnum : NUM { $$ = $1 } ;\n%%\n'
             'func GetToken(input string, valTy *ValType, pos *int) int { return -1 }\nvar _ = fmt.Sprint\n')
    texts.append(('h_cased', cased, cased.replace('package main\nimport "fmt"\n', '"use strict";\n').replace(' v0 int\n', ' v0 :number = 0;\n')
                  .replace('func GetToken(input string, valTy *ValType, pos *int) int { return -1 }\nvar _ = fmt.Sprint\n', 'function GetToken(input :string, model:{ValType :ValType, pos :number}) :number { return -1 }\n')))
    for f in sorted(os.listdir(os.path.join(vlib.REPO, 'examples'))):
        if f.endswith('.y'):
            t = open(os.path.join(vlib.REPO, 'examples', f)).read()
            texts.append(('ex_' + f, t, None if 'package' in t and 'ts' not in f else t))
    return texts


def run_C14(ctx):
    bindir = vlib.build_impl()
    yaccgo = os.path.join(bindir, 'yaccgo')
    work = os.path.join(vlib.WORK, 'c14-%d' % os.getpid())
    shutil.rmtree(work, ignore_errors=True)
    os.makedirs(work)
    nruns = 8 if ctx.quick else 40
    texts = c14_corpus(ctx)
    jobs = []
    for gi, (name, gotext, tstext) in enumerate(texts):
        for (tn, args, ext) in TARGETS:
            t = tstext if tn == 'ts' else gotext
            if t is None or (name.startswith('ex_') and ((tn == 'ts') != ('ts' in name))):
                continue
            src = os.path.join(work, 'g%d_%s.y' % (gi, tn))
            open(src, 'w').write(t)
            for k in range(nruns):
                jobs.append((name, tn, args, src, os.path.join(work, 'g%d_%s_%d%s' % (gi, tn, k, ext))))

    def one(j):
        name, tn, args, src, out = j
        if re.search(r'_[1359]\.\w+$', out):
            # some of the runs regenerate in place: the output path already holds a longer file (the result must not depend on it)
            with open(out, 'w') as f:
                f.write('// an older, longer output\n' + '/* stale */ }\n' * 30000)
        try:
            r = subprocess.run([yaccgo] + args + [src, out], capture_output=True, timeout=60)
            rc = r.returncode
        except subprocess.TimeoutExpired:
            rc = None
        h = None
        if os.path.exists(out):
            b = open(out, 'rb').read()
            h = hashlib.sha256(b).hexdigest()
        return (name, tn, rc, h, out)
    try:
        with cf.ThreadPoolExecutor(16) as ex:
            res = list(ex.map(one, jobs))
        by = {}
        for (name, tn, rc, h, out) in res:
            by.setdefault((name, tn), []).append((rc, h, out))
        tx = {name: (g, t) for (name, g, t) in texts}
        for (name, tn), rs in sorted(by.items()):
            ctx.evaluations += len(rs)
            text = tx[name][1] if tn == 'ts' else tx[name][0]
            hs = sorted(set((rc, h) for (rc, h, _) in rs))
            if all(rc == 0 for (rc, _, _) in rs):
                ctx.nontrivial.add((name, tn))
            if len(hs) > 1:
                a = next(o for (rc, h, o) in rs if (rc, h) == hs[0])
                b = next(o for (rc, h, o) in rs if (rc, h) == hs[1])
                diff = ''
                if os.path.exists(a) and os.path.exists(b):
                    la, lb = open(a, errors='replace').read().splitlines(), open(b, errors='replace').read().splitlines()
                    for i, (x, y) in enumerate(zip(la, lb)):
                        if x != y:
                            diff = 'first differing line %d: %r vs %r' % (i + 1, x[:120], y[:120])
                            break
                ctx.violation('counterexample', '%d runs of `yaccgo %s` on grammar %s give %d different results (%s)' % (len(rs), ' '.join(TARGETS[[t[0] for t in TARGETS].index(tn)][1]), name, len(hs), diff),
                              dict(grammar=name, target=tn, grammar_text=text, grammar_sha=vlib.sha(text), runs=len(rs), distinct=len(hs), observed=diff), interface='I10')
            elif len(ctx.samples) < 5:
                ctx.sample(dict(grammar=name, target=tn, runs=len(rs), sha256=hs[0][1], exit=hs[0][0]))
        # several generations in one process ("twice ... in the same or in different processes"): every output must be the
        # one a fresh process produces for the same file and options, whatever was generated before in that process
        rnd = random.Random(ctx.seed + 3)
        ref = {}
        for (name, tn, rc, h, out) in res:
            if rc == 0 and h:
                ref.setdefault((name, tn), h)
        gindex = {name: gi for gi, (name, _, _) in enumerate(texts)}
        seqs = []
        for (name, gotext, tstext) in texts:
            if name.startswith('ex_'):
                continue
            modes = [t[0] for t in TARGETS if t[0] != 'ts' and (name, t[0]) in ref]
            if len(modes) < 2:
                continue
            seq = [rnd.choice(modes) for _ in range(rnd.randint(3, 6))]
            seqs.append((name, os.path.join(work, 'g%d_go.y' % gindex[name]), seq))
            if len(seqs) >= (40 if ctx.quick else 400):
                break
        r = vlib.sh([os.path.join(bindir, 'genseq')], input=''.join(json.dumps(dict(file=f, seq=q)) + '\n' for (_, f, q) in seqs), timeout=1200)
        outs = [json.loads(l) for l in r.stdout.splitlines() if l.startswith('[')]
        nseq = 0
        for (name, f, seq), o in zip(seqs, outs):
            nseq += 1
            ctx.evaluations += len(seq)
            for k, (mode, h) in enumerate(zip(seq, o)):
                if h != ref.get((name, mode)):
                    text = tx[name][0]
                    ctx.violation('counterexample', 'grammar %s: generation #%d (%s) of the sequence %s in one process gives %s, a fresh process gives %s for the same file and options'
                                  % (name, k + 1, mode, seq, h[:16], (ref.get((name, mode)) or '?')[:16]),
                                  dict(grammar=name, target=mode, sequence=seq, grammar_text=text, grammar_sha=vlib.sha(text), observed=h, expected=ref.get((name, mode))), interface='I10')
                    break
        if len(outs) != len(seqs):
            ctx.violation('no-failing-input-found', 'the in-process generation harness answered %d of %d sequences: %s' % (len(outs), len(seqs), r.stderr[-300:]), {}, interface='I10')
        ctx.extra['in_process_sequences'] = nseq
        ctx.extra['runs_per_case'] = nruns
        ctx.extra['grammars'] = len(texts)
    finally:
        shutil.rmtree(work, ignore_errors=True)


# ---------------------------------------------------------------- C13 termination
def run_gen(paths, timeout_ms=5000):
    """Runs the in-process generator harness on the files; returns list of dicts in the same order."""
    bindir = vlib.build_impl()
    todo = list(paths)
    res = []
    while todo:
        r = vlib.sh([os.path.join(bindir, 'gen'), '-timeout', str(timeout_ms)], input='\n'.join(todo) + '\n', timeout=3600)
        got = [json.loads(l) for l in r.stdout.splitlines() if l.startswith('{')]
        res += got
        if len(got) < len(todo):
            if not (got and got[-1].get('timeout')):
                res.append(dict(id=todo[len(got)], crash=(r.stderr or '')[-1500:]))
                got.append(None)
            todo = todo[len(got):]
        else:
            todo = []
    return res


def c13_texts(ctx):
    rnd = random.Random(ctx.seed * 2654435761 % (2 ** 31) + 11)
    base = []
    for f in sorted(os.listdir(os.path.join(vlib.REPO, 'examples'))):
        if f.endswith('.y'):
            base.append(('ex_' + f, open(os.path.join(vlib.REPO, 'examples', f)).read()))
    cur = gram.curated()
    for k in ('expr', 'ambig_prec', 'nullable_chain', 'nonassoc'):
        base.append(('c_' + k, genrun.go_text(genrun.fix_tags(cur[k]), 'main', False)))
    rich = ('%{\npackage main\nimport "fmt"\n%}\n/* a block comment ** with stars **/\n// line comment\n%union {\n val int\n node struct { a, b int }\n}\n'
            '%token <val> NUM 300 ID "identifier"\n%token <node> \'x\'\n%token left_paren right_paren\n%type <val> prog expr\n%left \'+\' \'-\'\n%right \'^\'\n%nonassoc \'<\'\n%precedence NEG\n%start prog\n%%\n'
            'prog : /* empty */ { $$ = 0 }\n     | prog expr \';\' { $$ = $1 + $2; fmt.Println("{x}") }\n     ;\n'
            'expr : NUM | ID { $$ = $1 } | expr \'+\' expr { $$ = $1 + $3 } | expr \'-\' expr | expr \'^\' expr | expr \'<\' expr\n     | \'-\' expr %prec NEG { $$ = -$2 } | left_paren expr right_paren { $$ = $2 } | \'\\\'\' \'x\' ;\n%%\n'
            'func GetToken(input string, valTy *ValType, pos *int) int { return -1 }\n')
    base.append(('h_rich', rich))
    texts = []
    # truncations that end just after a construct that makes the parser wait for more tokens
    for tail in ['%start', '%token <', '%type <', '%left <', '%token <*Node> A\n%%\na : A ;\n', '%token', '%union', '%union {', '%{', '%prec',
                 '%%\na :', '%%\na : b %prec', "%%\na : 'x", '%%\na : { {', '/*', '/* *', '//', '"abc', "'", "'\\", '$', '$acc', '%%\n%%\n%%', '%type <x>', '%start 5', '-', '<', '>>>', '%left', '%%\n: a']:
        texts.append(('t_' + hashlib.md5(tail.encode()).hexdigest()[:6], tail.encode()))
        texts.append(('t2_' + hashlib.md5(tail.encode()).hexdigest()[:6], ('%token A\n' + tail).encode()))
    # line endings: CRLF files, CRLF files cut right after a carriage return, a stray carriage return, carriage returns alone
    small = ('%{\npackage main\n%}\n%union {\n val int\n}\n%token <val> NUM\n%type <val> e\n%start e\n%%\ne : NUM { $$ = $1 }\n  | e NUM { $$ = $1 + $2 }\n  ;\n%%\n'
             'func GetToken(input string, valTy *ValType, pos *int) int { return -1 }\n').encode()
    crlf = small.replace(b'\n', b'\r\n')
    texts.append(('tcr_crlf', crlf))
    texts.append(('tcr_mac', small.replace(b'\n', b'\r')))
    for k in range(12 if ctx.quick else 60):
        i = rnd.randrange(len(small))
        texts.append(('tcr_stray%d' % k, small[:i] + b'\r' + small[i:]))
        j = crlf.find(b'\r', rnd.randrange(len(crlf) - 2))
        texts.append(('tcr_cut%d' % k, crlf[:j + 1]))
    # chains of unit rules that close into a cycle, on nonterminals without a %type (and the same with one)
    for k, (tagged, spec) in enumerate([(False, 'expr: term ; term: atom ; atom: expr | NUM'), (True, 'expr: term ; term: atom ; atom: expr | NUM'),
                                        (False, 'a: b | x ; b: c ; c: d ; d: a'), (False, 'S: A | a ; A: S'), (False, 'S: S | a'),
                                        (False, 'p: q r ; q: r | ; r: q | x')]):
        g = gram.from_text(spec)
        for nt in g['nonterms']:
            nt['tag'] = 'v0' if tagged else ''
        for t in g['terms']:
            t['tag'] = ''
        texts.append(('tcy_%d' % k, gram.render_plain(g, 'main').encode()))
    for k in range(20 if ctx.quick else 200):
        g = gram.random_grammar(rnd, nT=rnd.randint(1, 3), nN=rnd.randint(2, 5), p_term=0.25, max_len=1, want_tags=False)
        texts.append(('tcy_r%d' % k, gram.render_plain(g, 'main').encode()))
    # grammars that must be refused because a nonterminal derives no terminal string, where the recursion that never ends does
    # not go through the nonterminal reported first (the symbols are numbered in the order of their names)
    for k, spec in enumerate(['top: expr ; expr: expr + expr | atom ; atom: ( expr )', 'list: list , item | item ; item: ( list )',
                              'S: B ; B: C x ; C: C y', 'a: b ; b: c ; c: d ; d: c x', 'z: y | a ; y: x y ; x: y x', 'S: A B ; A: a ; B: C ; C: D c ; D: C d']):
        texts.append(('tun_%d' % k, gram.render_plain(gram.from_text(spec), 'main').encode()))
    for k in range(20 if ctx.quick else 200):
        g = gram.random_grammar(rnd, nT=rnd.randint(1, 3), nN=rnd.randint(2, 5), p_term=0.4)
        lose = set(rnd.sample(range(len(g['nonterms'])), rnd.randint(1, len(g['nonterms']) - 1)))
        g['rules'] = [r for r in g['rules'] if not (r['lhs'] in lose and all(x[0] == 't' for x in r['rhs']))] or g['rules'][:1]
        texts.append(('tun_r%d' % k, gram.render_plain(g, 'main').encode()))
    # a small well-formed grammar with an exponentially large LR(0) automaton (Ukkonen's family, about n*2^n states): the state
    # limit must stop the construction (names starting with big_ get a longer deadline: printing 2000 states takes seconds)
    n = 10
    low, up = [chr(97 + i) for i in range(n)], [chr(65 + i) for i in range(n)]
    ex = ['%{\npackage main\n%}\n%union {\n\tv int\n}\n%%\n', 'start:\n    ' + '\n  | '.join('p%d' % i for i in range(n)) + '\n  ;\n']
    for i in range(n):
        alts = ["'%s' p%d" % (low[j], i) for j in range(n) if j != i] + ["'%s' q%d" % (low[i], i), "'%s'" % up[i]]
        ex.append('p%d:\n    ' % i + '\n  | '.join(alts) + '\n  ;\n')
        ex.append('q%d:\n    ' % i + '\n  | '.join(["'%s' q%d" % (low[j], i) for j in range(n)] + ["'%s'" % up[i]]) + '\n  ;\n')
    texts.append(('big_exp%d' % n, (''.join(ex) + '%%\n').encode()))
    # non-ASCII letters and digits where identifiers, numbers and literals are expected
    for k, ch in enumerate(['\u0663', '\uff11', '\u0967', '\u00e9', '\u4e2d', '\u00b2']):
        for j, tmpl in enumerate(['%%token A %s\n%%%%\na : A ;\n', '%%token A\n%%%%\na : A %s ;\n', '%%token %s\n%%%%\na : %s ;\n', "%%token A\n%%%%\na : '%s' A ;\n", '%s', '%%token A 1%s\n%%%%\na : A ;\n', '%%token A\n%%%%\na : A { $%s } ;\n']):
            texts.append(('u%d_%d' % (k, j), (tmpl.replace('%s', ch).replace('%%', '%')).encode()))
    # whole grammars that reach table construction with crowded table cells: every operator without associativity,
    # pasted (duplicate) alternatives, unit cycles -- several reductions and a shift compete for one lookahead
    for k in range(150 if ctx.quick else 2000):
        g = gram.random_grammar(rnd, nT=rnd.randint(1, 4), nN=rnd.randint(1, 3), p_prec=1.0, max_alts=4, p_term=rnd.choice([0.3, 0.5]))
        g['precs'] = [(rnd.choice(['nonassoc', 'precedence', 'nonassoc', kind]), ts) for (kind, ts) in g['precs']]
        for _ in range(rnd.randint(0, 2)):
            r = rnd.choice(g['rules'])
            g['rules'].insert(rnd.randrange(len(g['rules']) + 1), dict(r, rhs=list(r['rhs']), coef=list(r['coef'])))
        if rnd.random() < 0.5:
            g = gram.operator_grammar(rnd)
            g['precs'] = [(rnd.choice(['nonassoc', 'precedence', kind]), ts) for (kind, ts) in g['precs']]
            for _ in range(rnd.randint(1, 2)):
                r = rnd.choice(g['rules'])
                g['rules'].append(dict(r, rhs=list(r['rhs']), coef=list(r['coef'])))
        texts.append(('k_%d' % k, genrun.go_text(genrun.fix_tags(g), 'main', False).encode()))
    for name, t in base:
        b = t.encode()
        if ctx.quick:
            cuts = range(len(b) + 1) if len(b) < 2500 else sorted(set(rnd.sample(range(len(b) + 1), 400) + [0, len(b)]))
        else:
            cuts = range(len(b) + 1) if len(b) < 4000 else sorted(set(rnd.sample(range(len(b) + 1), 1500)))
        for c in cuts:
            texts.append(('%s_p%d' % (name, c), b[:c]))
        for k in range(120 if ctx.quick else 1500):
            bb = bytearray(b)
            for _ in range(rnd.randint(1, 3)):
                if not bb:
                    break
                op = rnd.randrange(6)
                i = rnd.randrange(len(bb))
                if op == 0:
                    del bb[i:i + rnd.randint(1, 12)]
                elif op == 1:
                    bb[i:i] = bytes(rnd.choice(['\u0663'.encode(), '\u00e9'.encode(), '\u4e2d'.encode(), '\uff11'.encode(), '\u00b2'.encode(), '\u0967'.encode(), b'{', b'}', b'/*', b'*/', b'%%', b"'", b'"', b'%{', b'%}', b'<', b'>', b'\x00', b'\xff\xfe', b'%token', b'%prec', b':', b'|', b';', b'$$', b'\\', b'%union', b'\r\n', b'\r']))
                elif op == 2:
                    j = rnd.randrange(len(bb))
                    bb[i:i] = bb[j:j + rnd.randint(1, 30)]
                elif op == 3:
                    bb[i] = bb[i] ^ (1 << rnd.randrange(8))
                elif op == 4:
                    bb[i] = rnd.randrange(256)
                else:
                    j = rnd.randrange(len(bb))
                    bb[i], bb[j] = bb[j], bb[i]
            texts.append(('%s_e%d' % (name, k), bytes(bb)))
    return texts


def run_C13(ctx):
    bindir = vlib.build_impl()
    work = os.path.join(vlib.WORK, 'c13-%d' % os.getpid())
    shutil.rmtree(work, ignore_errors=True)
    os.makedirs(work)
    try:
        texts = c13_texts(ctx)
        paths = []
        for i, (name, b) in enumerate(texts):
            p = os.path.join(work, '%05d.y' % i)
            open(p, 'wb').write(b)
            paths.append(p)
        # in-process: generate go, generate typescript, debug on every text, deadline per entry point
        k = 12
        small = [p for (name, _), p in zip(texts, paths) if not name.startswith('big_')]
        large = [p for (name, _), p in zip(texts, paths) if name.startswith('big_')]
        with cf.ThreadPoolExecutor(k) as ex:
            parts = list(ex.map(lambda idx: run_gen(small[idx::k], 4000), range(k)))
        parts.append(run_gen(large, 25000))
        res = {}
        for part in parts:
            for o in part:
                res[o['id']] = o
        classes = {}
        for (name, b), p in zip(texts, paths):
            o = res.get(p)
            ctx.evaluations += 1
            if o is None:
                ctx.violation('no-failing-input-found', 'C13 harness: no result for input %s' % name, dict(input_name=name, text=b.decode('latin1')), interface='I10')
                continue
            if o.get('timeout'):
                ctx.violation('counterexample', 'yaccgo (%s) does not finish within %d s on the %d-byte input %s (normal runs take milliseconds): %r' % (o.get('stage'), 25 if name.startswith('big_') else 4, len(b), name, b[-80:]),
                              dict(input_name=name, text=b.decode('latin1'), text_sha=vlib.sha(b), stage=o.get('stage'), observed='no termination within the deadline', expected='output or diagnostic'), interface='I10')
                continue
            if o.get('crash') is not None:
                ctx.violation('counterexample', 'the generator process died on input %s: %s' % (name, o['crash'][-300:]), dict(input_name=name, text=b.decode('latin1'), text_sha=vlib.sha(b), observed=o['crash'][-600:]), interface='I10')
                continue
            cls = tuple((o.get(x) or '?').split(':')[0] for x in ('go', 'ts', 'debug'))
            classes[cls] = classes.get(cls, 0) + 1
            if cls != ('ok', 'ok', 'ok'):
                ctx.nontrivial.add(name)
            if len(ctx.samples) < 6 and (ctx.evaluations % 97 == 3):
                ctx.sample(dict(input=name, bytes=len(b), go=o.get('go', '')[:80], ts=o.get('ts', '')[:80], debug=o.get('debug', '')[:80]))
        ctx.extra['outcome_classes'] = {'/'.join(k): v for k, v in sorted(classes.items())}
        # the lexer model (total by construction, fuel |input|+1 proved sufficient) against the real lexer on the same texts
        import lexmodel
        # (texts on which a generator entry point already ran into the deadline are reported above and left out here:
        # the dump tool would run into the same hang once per text)
        live = [i for i, p in enumerate(paths) if not (res.get(p) or {}).get('timeout')]
        all_texts, all_paths = texts, paths
        texts, paths = [all_texts[i] for i in live], [all_paths[i] for i in live]
        ctx.extra['lexer_model'] = lexmodel.compare(ctx, [b for (_, b) in texts], paths, 'C13')
        # the parser model (every loop on fuel; it must never run out of it) against the real parser's AST on the same texts
        import parsemodel
        ctx.extra['parser_model'] = parsemodel.compare(ctx, [b for (_, b) in texts], paths, label='C13')
        texts, paths = all_texts, all_paths
        # the real CLI in separate processes on a sample (process-level: exit, no hang)
        rnd = random.Random(ctx.seed + 77)
        sample = [i for i, (n, _) in enumerate(texts) if n.startswith('t') or n.startswith('big_')] + rnd.sample(range(len(texts)), min(len(texts), 60 if ctx.quick else 600))
        yaccgo = os.path.join(bindir, 'yaccgo')

        def cli(i):
            outs = []
            for args in (['generate', 'go', paths[i], os.path.join(work, 'o%d.go' % i)], ['debug', paths[i]]):
                try:
                    r = subprocess.run([yaccgo] + args, capture_output=True, timeout=30 if texts[i][0].startswith('big_') else 6)
                    outs.append(r.returncode)
                except subprocess.TimeoutExpired:
                    outs.append('timeout')
            return i, outs
        with cf.ThreadPoolExecutor(16) as ex:
            for i, outs in ex.map(cli, sample):
                ctx.evaluations += 1
                name, b = texts[i]
                if 'timeout' in outs:
                    which = 'generate go' if outs[0] == 'timeout' else 'debug'
                    ctx.violation('counterexample', '`yaccgo %s` does not finish within %d s on the %d-byte input %s: %r' % (which, 30 if name.startswith('big_') else 6, len(b), name, b[-80:]),
                                  dict(input_name=name, text=b.decode('latin1'), text_sha=vlib.sha(b), stage='cli ' + which, observed='no termination within the deadline', expected='output or diagnostic'), interface='I10')
        ctx.extra['cli_sampled'] = len(sample)
    finally:
        shutil.rmtree(work, ignore_errors=True)
