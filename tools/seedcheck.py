#!/usr/bin/env python3
"""Seeded-change bookkeeping.

  seedcheck.py import <src_out_dir> <seed_id>   verify a sub-agent's change in a scratch worktree (tests pass with it,
                                                 demo exits 0 without / non-zero with it) and store it as seeded/<seed_id>/
  seedcheck.py run <seed_id> [props...]          apply seeded/<seed_id>/patch.diff to /repo, run ./check for the given
                                                 properties (default: the property it breaks), undo, record the verdicts
The scratch worktree lives under /tmp and is removed at the end."""
import json, os, shutil, subprocess, sys, time
VERIF = os.path.dirname(os.path.dirname(os.path.abspath(__file__)))
REPO = '/repo'
ENV = dict(os.environ, GOFLAGS='-mod=mod', GOPROXY='off', GOSUMDB='off', GOTOOLCHAIN='local')


def sh(cmd, **kw):
    return subprocess.run(cmd, capture_output=True, text=True, **kw)


def do_import(src, sid):
    patch = os.path.join(src, 'patch.diff')
    meta = json.load(open(os.path.join(src, 'meta.json')))
    wt = '/tmp/seedwt_' + sid
    sh(['git', '-C', REPO, 'worktree', 'remove', '--force', wt])
    r = sh(['git', '-C', REPO, 'worktree', 'add', '--detach', wt, 'HEAD'])
    assert r.returncode == 0, r.stderr
    ran = []
    try:
        demo = os.path.join(src, 'demo', 'run.sh')
        r0 = sh(['bash', demo, wt], env=ENV, timeout=1200)
        ran.append('bash demo/run.sh <clean worktree> -> exit %d' % r0.returncode)
        r = sh(['git', '-C', wt, 'apply', patch])
        assert r.returncode == 0, 'patch does not apply: ' + r.stderr
        rb = sh(['go', 'build', './...'], cwd=wt, env=ENV)
        rt = sh(['go', 'test', '-mod=mod', '-vet=off', '-count=1', './...'], cwd=wt, env=ENV, timeout=1200)
        ran.append('go build ./... -> %d; go test -mod=mod -vet=off -count=1 ./... -> exit %d' % (rb.returncode, rt.returncode))
        r1 = sh(['bash', demo, wt], env=ENV, timeout=1200)
        ran.append('bash demo/run.sh <patched worktree> -> exit %d' % r1.returncode)
        ok = r0.returncode == 0 and r1.returncode != 0 and rt.returncode == 0 and rb.returncode == 0
        print('clean demo exit', r0.returncode, '| patched demo exit', r1.returncode, '| tests', rt.returncode, '| build', rb.returncode)
        if not ok:
            print('NOT KEPT'); print(r0.stdout[-800:], r1.stdout[-800:], rt.stdout[-800:])
            return 1
        dst = os.path.join(VERIF, 'seeded', sid)
        shutil.rmtree(dst, ignore_errors=True)
        os.makedirs(dst)
        shutil.copy(patch, os.path.join(dst, 'patch.diff'))
        shutil.copytree(os.path.join(src, 'demo'), os.path.join(dst, 'demo'))
        m = dict(seed=sid, property=meta.get('property'), summary=meta.get('summary'), files_changed=meta.get('files_changed'),
                 needs_to_manifest=meta.get('needs_to_manifest'), how_demonstrated=meta.get('how_demonstrated'),
                 source='independent sub-agent given only the property text and a scratch worktree',
                 confirmed=ran, demo_output_patched=r1.stdout[-600:], checks={})
        json.dump(m, open(os.path.join(dst, 'meta.json'), 'w'), indent=1)
        print('KEPT as', dst)
        return 0
    finally:
        sh(['git', '-C', REPO, 'worktree', 'remove', '--force', wt])
        shutil.rmtree(wt, ignore_errors=True)


def do_run(sid, props, tier='quick'):
    """Runs the checks against a scratch worktree of /repo with the seeded patch applied (VERIF_REPO points the
    checks at it; evidence, replays and caches of these runs go to a scratch directory, not to /verif/evidence)."""
    d = os.path.join(VERIF, 'seeded', sid)
    meta = json.load(open(os.path.join(d, 'meta.json')))
    props = props or [meta['property']]
    wt = '/tmp/seedrun_' + sid
    scratch = os.path.join(VERIF, '.work', 'seed-' + sid)
    sh(['git', '-C', REPO, 'worktree', 'remove', '--force', wt])
    r = sh(['git', '-C', REPO, 'worktree', 'add', '--detach', wt, 'HEAD'])
    assert r.returncode == 0, r.stderr
    try:
        r = sh(['git', '-C', wt, 'apply', os.path.join(d, 'patch.diff')])
        assert r.returncode == 0, r.stderr
        env = dict(os.environ, VERIF_REPO=wt, VERIF_WORK=scratch, VERIF_OUT=scratch, VERIF_SKIP_PROOFS='1')
        for p in props:
            t0 = time.time()
            r = sh([os.path.join(VERIF, 'check'), p, '--tier', tier], cwd=VERIF, timeout=7200, env=env)
            lines = [l for l in r.stdout.splitlines() if l.startswith('VIOLATION') or l.startswith('KNOWN')]
            detail = [l for l in r.stdout.splitlines() if l.startswith('  ')][:2]
            verdict = 'caught' if r.returncode == 1 and any(l.startswith('VIOLATION') for l in lines) else ('missed' if r.returncode == 0 else 'error rc=%d' % r.returncode)
            meta['checks'][p + ':' + tier] = dict(verdict=verdict, lines=[l.replace(scratch, '<scratch>') for l in lines[:3]], detail=detail, wall_s=round(time.time() - t0, 1))
            print(sid, p, tier, verdict, lines[:2], detail[:1], flush=True)
            if verdict.startswith('error'):
                print(r.stdout[-1500:], r.stderr[-1500:])
    finally:
        sh(['git', '-C', REPO, 'worktree', 'remove', '--force', wt])
        shutil.rmtree(wt, ignore_errors=True)
        shutil.rmtree(scratch, ignore_errors=True)
    json.dump(meta, open(os.path.join(d, 'meta.json'), 'w'), indent=1)
    return 0


if __name__ == '__main__':
    if sys.argv[1] == 'import':
        sys.exit(do_import(sys.argv[2], sys.argv[3]))
    elif sys.argv[1] == 'run':
        tier = 'quick'
        args = sys.argv[3:]
        if args and args[0] in ('--thorough',):
            tier = 'thorough'; args = args[1:]
        sys.exit(do_run(sys.argv[2], args, tier))
