#!/usr/bin/env python3
"""Front-end correspondence (interface I1): abstract specifications, their textual renderings under
random layouts, the expected internal grammar (`denote`), the read-back of what the implementation
built, and the stage-wise comparison of the implementation's visitor with the Coq model Front.v
(run on the implementation's own AST).

A spec is a dict
  prologue, union : str           epilogue : str or None (None: no second %%)
  decls : list of
      ('token', tag or None, [(sym, num or None, alias or None), ...])
      ('type', tag, [name, ...])
      (kind in left/right/nonassoc/precedence, tag or None, [sym, ...])
      ('start', name)
  groups : list of (lhs name, [alt, ...]),  alt = dict(rhs=[sym, ...], prec=sym or None, action=str or None)
  sym = ('id', name) | ('lit', one-character string)"""
import json, os, random, re, sys
sys.path.insert(0, os.path.dirname(os.path.abspath(__file__)))
import vlib, gram


def iname(sym):
    return sym[1] if sym[0] == 'id' else '$operator' + sym[1]


def symtext(sym):
    if sym[0] == 'id':
        return sym[1]
    # dialect: the quote character itself is written ''' (the lexer takes any single character between quotes;
    # the form '\'' is refused with a diagnostic because the closing quote is not consumed after the escape)
    return "'%s'" % sym[1]


# ---------------------------------------------------------------- spec from an abstract grammar
LITPOOL = "+-*/=<>()[],.!&^#@~?|{}\"%$:;'"


def decorate(g, rnd, actions=True, plain=False):
    """Turns a gram.py grammar into a spec with a randomly chosen declaration style."""
    terms, nts = g['terms'], g['nonterms']
    prec_of = {}
    for lv, (kind, ts) in enumerate(g['precs']):
        for t in ts:
            prec_of[t] = lv
    tsym = [('lit', t['lit']) if t['lit'] else ('id', t['name']) for t in terms]
    decls = []
    used_in_rules = set(s[1] for r in g['rules'] for s in r['rhs'] if s[0] == 't')
    declared_via_prec = set()
    pending = []
    nums = {}
    next_num = rnd.choice([260, 300, 1000, 40, 7])
    taken = set(t['num'] for t in terms if t.get('num') is not None) | set(ord(t['lit']) for t in terms if t['lit'])
    for i, t in enumerate(terms):
        style = rnd.random()
        lit = bool(t['lit'])
        tag = t['tag'] or None
        if lit and i in used_in_rules and rnd.random() < 0.5:
            tag = None                            # a character literal is usually just written in the rules
        if lit:
            if i in prec_of and style < 0.5:
                declared_via_prec.add(i)          # only in the precedence line
            elif style < 0.8 and i in used_in_rules and not tag:
                pass                              # only used in rules
            else:
                pending.append((i, tag, None))
        else:
            num = None
            if t.get('num') is not None:
                num = t['num']
            elif not plain and rnd.random() < 0.3:
                while next_num in taken:
                    next_num += 1
                num = next_num
                taken.add(num)
                next_num += rnd.choice([1, 1, 2, 10])
            nums[i] = num
            if i in prec_of and num is None and ((style < 0.25 and not tag) or t.get('declared') is False):
                declared_via_prec.add(i)
            else:
                pending.append((i, tag, num))
    # group pending token declarations into lines by tag; some get the repo idiom: tag first, number in a second line
    rnd.shuffle(pending)
    lines = []
    redecl = []
    for (i, tag, num) in pending:
        if num is not None and not terms[i]['lit'] and rnd.random() < 0.4:
            lines.append(('token', tag, [(tsym[i], None, None)]))
            redecl.append(('token', None, [(tsym[i], num, None)]))
            continue
        alias = None
        if not terms[i]['lit'] and num is None and rnd.random() < 0.1:
            alias = rnd.choice(['"%s"' % terms[i]['name'].lower(), "'%s'" % rnd.choice('abc')])
        prev = lines[-1][2][-1] if lines and lines[-1][0] == 'token' else None
        # dialect: a literal or string right after a bare identifier in a %token line is that identifier's alias
        alias_trap = prev is not None and terms[i]['lit'] and prev[0][0] == 'id' and prev[1] is None and prev[2] is None
        if lines and lines[-1][1] == tag and rnd.random() < 0.5 and lines[-1][0] == 'token' and not alias_trap:
            lines[-1][2].append((tsym[i], num, alias))
        else:
            lines.append(('token', tag, [(tsym[i], num, alias)]))
    decls += lines
    tl = []
    for n in nts:
        if n['tag']:
            if tl and tl[-1][1] == n['tag'] and rnd.random() < 0.6:
                tl[-1][2].append(n['name'])
            else:
                tl.append(('type', n['tag'], [n['name']]))
    precl = [(kind, None, [tsym[t] for t in ts]) for (kind, ts) in g['precs']]
    rest = tl + redecl
    rnd.shuffle(rest)
    # precedence lines keep their relative order (it defines the levels) but are interleaved with the rest
    merged = []
    pi = 0
    for d in rest:
        while pi < len(precl) and rnd.random() < 0.4:
            merged.append(precl[pi]); pi += 1
        merged.append(d)
    merged += precl[pi:]
    decls += merged
    if not plain and rnd.random() < 0.2:
        # `%token NAME -1`: an alias of the end marker (no grammar symbol of its own)
        decls.insert(rnd.randint(0, len(decls)), ('token', None, [(('id', rnd.choice(['ENDMARK', 'EOF_', 'AAEND'])), -1, None)]))
    startname = nts[g['start']]['name']
    if not (g.get('implicit_start') and startname == 'start'):
        decls.insert(rnd.randint(0, len(decls)), ('start', startname))
    groups = []
    for idx, r in enumerate(g['rules']):
        alt = dict(rhs=[tsym[s[1]] if s[0] == 't' else ('id', nts[s[1]]['name']) for s in r['rhs']],
                   prec=tsym[r['prec']] if r['prec'] is not None else None,
                   action=('{ /* rule %d */ }' % (idx + 1)) if (actions and rnd.random() < 0.7) else None)
        lhs = nts[r['lhs']]['name']
        if groups and groups[-1][0] == lhs and rnd.random() < 0.75:
            groups[-1][1].append(alt)
        else:
            groups.append((lhs, [alt]))
    return dict(prologue='\npackage main\nimport "fmt"\n', union='\n v0 int\n v1 int\n v2 int\n',
                epilogue='\nfunc GetToken(input string, valTy *ValType, pos *int) int { return -1 }\nvar _ = fmt.Sprint\n',
                decls=decls, groups=groups)


# ---------------------------------------------------------------- rendering
def rand_comment(rnd):
    k = rnd.randrange(8)
    if k == 0:
        return '// ' + rnd.choice(['x', 'a : b | c ;', '%token Z', "'{'", '']) + '\n'
    if k == 1:
        return '/*' + rnd.choice([' c ', '', '*', ' a : b ; ', ' ** ', '\n', ' %% ', ' { ']) + '*/'
    if k == 2:
        return '/**' + rnd.choice([' doc ', '', ' * ']) + '**/'
    if k == 3:
        return '/***/'
    return ''


def sep(rnd, style, need=False):
    """A separator: blanks, tabs, newlines, comments. need=True: must not be empty."""
    if style == 'plain':
        return ' '
    if style == 'dense':
        s = rand_comment(rnd) if rnd.random() < 0.15 else ''
        if need and not s:
            s = rnd.choice([' ', '\t', '\n', '/**/'])
        return s
    if style == 'lines':
        return '\n'
    out = ''
    for _ in range(rnd.randint(0, 3)):
        out += rnd.choice([' ', ' ', '\t', '\n', '  ', rand_comment(rnd)])
    if need and not out:
        out = rnd.choice([' ', '\n', '\t'])
    return out


def render(spec, rnd=None, style='plain', semis=None):
    """Text of the spec under a layout. style in plain / random / dense / lines."""
    rnd = rnd or random.Random(0)
    S = lambda need=False: sep(rnd, style, need)
    out = []
    out.append(S())
    out.append('%{' + spec['prologue'] + '%}' + ('\n' if style != 'plain' and rnd.random() < 0.7 else ' ') + S())
    out.append('%union' + rnd.choice([' ', '  ', '\t', ' ']) + '{' + spec['union'] + '}' + S(True))
    if spec.get('prologue2'):
        # a second %{ %} block after the union: the blocks are carried into the output one after the other
        out.append('%{' + spec['prologue2'] + '%}' + ('\n' if style != 'plain' and rnd.random() < 0.7 else ' ') + S())      # %} ends a block only before white space
    for d in spec['decls']:
        kind = d[0]
        if kind == 'start':
            out.append('%start' + S(True) + d[1] + S(True))
            continue
        out.append('%' + kind)
        tag = d[1]
        if tag:
            out.append(S() + '<' + S() + tag + S() + '>' + S())
        else:
            out.append(S(True))
        for it in d[2]:
            if kind == 'token':
                sym, num, alias = it
                out.append(symtext(sym))
                if num is not None:
                    # numbers are decimal however they are padded (column-aligned token tables: 007 008 009 010)
                    out.append(S(True) + (('%0*d' % (rnd.choice([3, 4]), num)) if (num >= 0 and rnd.random() < 0.3) else str(num)))
                if alias is not None:
                    out.append(S(True) + alias)
            elif kind == 'type':
                out.append(it)
            else:
                out.append(symtext(it))
            out.append(S(True))
    out.append('%%' + S(True))
    for (lhs, alts) in spec['groups']:
        out.append(lhs + S() + ':' + S())
        for k, a in enumerate(alts):
            if k:
                out.append('|' + S())
            for s in a['rhs']:
                out.append(symtext(s) + S(True))
            if a['prec'] is not None:
                out.append('%prec' + S(True) + symtext(a['prec']) + S(True))
            if a['action'] is not None:
                out.append(a['action'] + S())
        semi = rnd.random() < 0.6 if semis is None else semis
        out.append((';' if semi else '') + S(True))
    if spec['epilogue'] is not None:
        out.append('%%' + spec['epilogue'])
    return ''.join(out)


# ---------------------------------------------------------------- denotation
def denote(spec):
    """The internal grammar the front end must build from the spec (names as inside yaccgo)."""
    toks = {}          # internal name -> dict(tag, code (fixed) or None, lit)
    order = []

    def tok(sym):
        n = iname(sym)
        if n not in toks:
            toks[n] = dict(tag='', code=(ord(sym[1]) if sym[0] == 'lit' else None), lit=(sym[0] == 'lit'), alias='')
            order.append(n)
        return toks[n]
    nts = {}
    prec = {}
    level = 0
    start = 'start'
    for d in spec['decls']:
        if d[0] == 'token':
            for (sym, num, alias) in d[2]:
                t = tok(sym)
                if d[1]:
                    t['tag'] = d[1]
                if num is not None and num != 0:
                    t['code'] = num
        elif d[0] == 'type':
            for n in d[2]:
                if n in toks:
                    toks[n]['tag'] = d[1]
                else:
                    nts.setdefault(n, dict(tag=''))['tag'] = d[1]
        elif d[0] == 'start':
            start = d[1]
        else:
            level += 1
            for sym in d[2]:
                n = iname(sym)
                if n not in toks:
                    t = tok(sym)
                    if d[1]:
                        t['tag'] = d[1]
                prec[n] = (level, {'left': 0, 'right': 1}.get(d[0], 2))
    for (lhs, alts) in spec['groups']:
        for a in alts:
            for s in a['rhs']:
                if s[0] == 'lit':
                    tok(s)
    rules = []
    for (lhs, alts) in spec['groups']:
        if lhs not in toks:
            nts.setdefault(lhs, dict(tag=''))
        for a in alts:
            rp = None
            for s in a['rhs']:
                if iname(s) in prec:
                    rp = iname(s)
            if a['prec'] is not None:
                rp = iname(a['prec']) if iname(a['prec']) in prec else None
            rules.append(dict(lhs=lhs, rhs=[iname(s) for s in a['rhs']], prec=rp, action=a['action'] or ''))
    if start not in toks:
        nts.setdefault(start, dict(tag=''))
    return dict(tokens=toks, nts=nts, prec=prec, rules=rules, start=start,
                prologue=spec['prologue'] + (spec.get('prologue2') or ''), union=spec['union'], epilogue=spec['epilogue'] if spec['epilogue'] is not None else '')


def read_back(d):
    """The same structure from the implementation's dump (in-process ParseAndBuild)."""
    toks, nts, prec = {}, {}, {}
    for i in d['idents']:
        if i['typ'] == 1:
            toks[i['name']] = dict(tag=i['tag'], code=i['value'])
        else:
            nts[i['name']] = dict(tag=i['tag'])
    for s in d['symbols']:
        if not s['nt'] and s['prec'] != -1:
            prec[s['name']] = (s['prec'], s['assoc'])
    sname = {s['id']: s['name'] for s in d['symbols']}
    rules = [dict(lhs=r['vlhs'], rhs=list(r['vrhs'] or []), prec=(r['vprec'] or None), action=r['action'],
                  glhs=sname.get(r['lhs']), grhs=[sname.get(x) for x in r['rhs']]) for r in d['rules'][1:]]
    r0 = d['rules'][0]
    start = d['symbols'][r0['rhs'][0]]['name'] if r0['rhs'] else None
    return dict(tokens=toks, nts=nts, prec=prec, rules=rules, start=start, prologue=d['code'], union=d['union'], epilogue=d['epilogue'])


def compare_denotation(want, got):
    """Differences between the grammar that was written and the grammar the implementation works on."""
    diffs = []
    if len(want['rules']) != len(got['rules']):
        diffs.append('number of rules: written %d, read %d' % (len(want['rules']), len(got['rules'])))
    for k, (a, b) in enumerate(zip(want['rules'], got['rules'])):
        for f in ('lhs', 'rhs', 'prec', 'action'):
            if a[f] != b[f]:
                diffs.append('rule %d %s: written %r, read %r' % (k + 1, f, a[f], b[f]))
        # the production the tables are built from (and that the action of rule k is attached to) is the k-th rule written
        if 'glhs' in b and (a['lhs'], a['rhs']) != (b['glhs'], b['grhs']):
            diffs.append('production %d of the grammar object is %s -> %s, the %d-th rule written is %s -> %s' % (k + 1, b['glhs'], ' '.join(map(str, b['grhs'])), k + 1, a['lhs'], ' '.join(a['rhs'])))
    if want['start'] != got['start']:
        diffs.append('start symbol: written %r, read %r' % (want['start'], got['start']))
    for n, t in want['tokens'].items():
        g = got['tokens'].get(n)
        if g is None:
            diffs.append('token %s missing' % n)
            continue
        if t['tag'] != g['tag']:
            diffs.append('token %s tag: written %r, read %r' % (n, t['tag'], g['tag']))
        if t['code'] is not None and t['code'] != g['code']:
            diffs.append('token %s code: written %r, read %r' % (n, t['code'], g['code']))
    for n in got['tokens']:
        if n not in want['tokens']:
            diffs.append('extra token %s' % n)
    for n, t in want['nts'].items():
        g = got['nts'].get(n)
        if g is None:
            diffs.append('nonterminal %s missing' % n)
        elif t['tag'] != g['tag']:
            diffs.append('nonterminal %s tag: written %r, read %r' % (n, t['tag'], g['tag']))
    for n in got['nts']:
        if n not in want['nts']:
            diffs.append('extra nonterminal %s' % n)
    if want['prec'] != got['prec']:
        ks = sorted(set(want['prec']) | set(got['prec']))
        diffs.append('precedence (level, assoc): ' + ', '.join('%s written %s read %s' % (k, want['prec'].get(k), got['prec'].get(k)) for k in ks if want['prec'].get(k) != got['prec'].get(k)))
    for f in ('prologue', 'union', 'epilogue'):
        if want[f] != got[f]:
            diffs.append('%s: written %r, read %r' % (f, want[f][:80], got[f][:80]))
    return diffs


# ---------------------------------------------------------------- token codes: the property itself on the implementation's table
def check_codes(want, got):
    """C11 on the implementation's identifier table (python mirror of Front valid_codes; the verdict on a found
    case is re-derived by the extracted checker)."""
    bad = []
    fixed = {n: t['code'] for n, t in want['tokens'].items() if t['code'] is not None}
    fixedvals = set(fixed.values())
    for n, c in fixed.items():
        if n in got['tokens'] and got['tokens'][n]['code'] != c:
            bad.append('token %s was given the code %d but has %d' % (n, c, got['tokens'][n]['code']))
    autos = {n: g['code'] for n, g in got['tokens'].items() if n not in fixed}
    for n, c in autos.items():
        if c in fixedvals:
            bad.append('automatically numbered token %s got the code %d, which is the fixed code of %s' % (n, c, [m for m, v in fixed.items() if v == c][0]))
        if c == -1:
            bad.append('automatically numbered token %s got the end marker code -1' % n)
    seen = {}
    if len(fixedvals) == len(fixed):
        for n, g in got['tokens'].items():
            if g['code'] in seen:
                bad.append('tokens %s and %s share the code %d' % (seen[g['code']], n, g['code']))
            seen[g['code']] = n
    return bad


# ---------------------------------------------------------------- the Coq model of the visitor on the implementation's AST
def hx(s):
    b = s.encode('utf8', 'surrogateescape') if isinstance(s, str) else s
    return b.hex() if b else '-'


def unhx(h):
    return '' if h == '-' else bytes.fromhex(h).decode('utf8', 'replace')


def model_front_text(gid, d):
    a = d['ast']
    out = ['P %s %s %s %s %s' % (gid, hx(a['code']), hx(a['union']), hx(a['start']), hx(d.get('epilogue', '') or ''))]
    out.append(str(len(a['tokens'])))
    for line in a['tokens']:
        out.append('%d %s' % (len(line), ' '.join('%s %d %d %s %s' % (hx(i['name']), i['typ'], i['value'], hx(i['tag']), hx(i['alias'])) for i in line)))
    out.append(str(len(a['precs'])))
    for line in a['precs']:
        out.append('%d %s' % (len(line), ' '.join('%d %s' % (p['assoc'], hx(p['name'])) for p in line)))
    out.append(str(len(a['types'])))
    for t in a['types']:
        out.append('%s %s' % (hx(t['tag']), hx(t['name'])))
    out.append(str(len(a['rules'])))
    for r in a['rules']:
        out.append('%d %s %s %d %s' % (r['line'], hx(r['lhs']), hx(r['prec']), len(r['rhs']), ' '.join('%d %s' % (e['t'], hx(e['e'])) for e in r['rhs'])))
    return '\n'.join(out) + '\n'


def parse_model_front(lines, gid):
    m = dict(idents=[], vrules=[], syms=[], grules=[], error=None, nterm=None, ok=False)
    pre = gid + ' '
    for ln in lines:
        if not ln.startswith(pre):
            continue
        f = ln[len(pre):].split(' ')
        k = f[0]
        if k == 'ident':
            m['idents'].append(dict(name=unhx(f[1]), typ=int(f[2]), value=int(f[3]), tag=unhx(f[4])))
        elif k == 'vrule':
            m['vrules'].append(dict(lhs=unhx(f[2]), prec=unhx(f[3]) or None, action=unhx(f[4]), rhs=[unhx(x) for x in f[5:] if x != '']))
        elif k == 'sym':
            m['syms'].append(dict(id=int(f[1]), name=unhx(f[2]), value=int(f[3]), declnt=f[4] == '1', prec=int(f[5]), assoc=int(f[6]), tag=unhx(f[7])))
        elif k == 'grule':
            m['grules'].append(dict(lhs=int(f[2]), precsym=int(f[3]), rhs=[int(x) for x in f[4:] if x != '']))
        elif k == 'nterm':
            m['nterm'] = int(f[1])
        elif k == 'ferror':
            m['error'] = (f[1], f[2:])
        elif k == 'fok':
            m['ok'] = True
    return m


def impl_error_class(d):
    """Class of the implementation's refusal, from its panic or error text."""
    t = (d.get('panic') or '') + (d.get('err') or '')
    if not t:
        return None
    if "not define symbol" in t or 'is the end of input and can not be used in a rule' in t:
        return 'undefined'
    if 'Check the nonterminal' in t:
        return 'norule'
    if 'Dected infinite loop' in t:
        return 'unproductive'
    if 'prec symbol' in t and 'not found' in t:
        return 'precunknown'
    if 'nil pointer' in t or 'invalid memory address' in t:
        return 'nostart'
    if 'do not has declare' in t or 'parser err' in t or 'parser error' in t:
        return 'syntax'
    return 'other:' + t[:60]


def compare_visitor(d, m):
    """Stage-wise: implementation's visitor/BuildLALR1 output against the model run on the implementation's AST."""
    diffs = []
    ic = impl_error_class(d)
    if m['error'] is not None or ic is not None:
        mc = m['error'][0] if m['error'] else None
        if ic != mc:
            diffs.append('verdict: implementation %s, model %s' % (ic or 'accepts', mc or 'accepts'))
        return diffs
    mi = {i['name']: i for i in m['idents']}
    for i in d['idents']:
        j = mi.get(i['name'])
        if j is None:
            diffs.append('identifier %s unknown to the model' % i['name'])
        elif (i['typ'], i['value'], i['tag']) != (j['typ'], j['value'], j['tag']):
            diffs.append('identifier %s: impl (typ %d, value %d, tag %r) model (typ %d, value %d, tag %r)' % (i['name'], i['typ'], i['value'], i['tag'], j['typ'], j['value'], j['tag']))
    if len(mi) != len(d['idents']):
        diffs.append('identifier count: impl %d model %d' % (len(d['idents']), len(mi)))
    for k, r in enumerate(d['rules'][1:]):
        if k >= len(m['vrules']):
            diffs.append('rule %d missing in the model' % (k + 1))
            break
        v = m['vrules'][k]
        got = (r['vlhs'], list(r['vrhs'] or []), r['vprec'] or None, r['action'])
        want = (v['lhs'], v['rhs'], v['prec'], v['action'])
        if got != want:
            diffs.append('rule %d: impl %r model %r' % (k + 1, got, want))
    for s, ms in zip(d['symbols'], m['syms']):
        a = (s['name'], s['value'], s['prec'], s['assoc'], s['tag'])
        b = (ms['name'], ms['value'], ms['prec'], ms['assoc'], ms['tag'])
        if a != b:
            diffs.append('symbol %d: impl %r model %r' % (s['id'], a, b))
    if len(d['symbols']) != len(m['syms']):
        diffs.append('symbol count: impl %d model %d' % (len(d['symbols']), len(m['syms'])))
    for k, (r, mr) in enumerate(zip(d['rules'], m['grules'])):
        if (r['lhs'], r['rhs'], r['precsym']) != (mr['lhs'], mr['rhs'], mr['precsym']):
            diffs.append('grammar rule %d: impl %r model %r' % (k, (r['lhs'], r['rhs'], r['precsym']), (mr['lhs'], mr['rhs'], mr['precsym'])))
    if m['nterm'] is not None and d['nterm'] != m['nterm']:
        diffs.append('terminal count: impl %d model %d' % (d['nterm'], m['nterm']))
    return diffs


def run_front(paths):
    """dump -ast on the files + the model on each AST. Returns list of (dump, model or None, visitor diffs)."""
    dumps = vlib.run_dump(paths, flags=['-ast'])
    chunks, ids = [], {}
    for k, d in enumerate(dumps):
        if d.get('ast'):
            ids[k] = 'f%d' % k
            chunks.append(model_front_text(ids[k], d))
    lines = vlib.model_eval_chunks(chunks) if chunks else []
    by = {}
    for ln in lines:
        by.setdefault(ln.split(' ', 1)[0], []).append(ln)
    res = []
    for k, d in enumerate(dumps):
        if k in ids:
            m = parse_model_front(by.get(ids[k], []), ids[k])
            res.append((d, m, compare_visitor(d, m)))
        else:
            res.append((d, None, []))
    return res


if __name__ == '__main__':
    import time
    rnd = random.Random(int(sys.argv[1]) if len(sys.argv) > 1 else 1)
    n = int(sys.argv[2]) if len(sys.argv) > 2 else 50
    work = os.path.join(vlib.WORK, 'front-test')
    os.makedirs(work, exist_ok=True)
    specs, paths = [], []
    for i in range(n):
        g = gram.random_usable(rnd, p_prec=0.5) if i % 3 else gram.operator_grammar(rnd)
        sp = decorate(g, rnd)
        for style in ('plain', 'random', 'dense'):
            p = os.path.join(work, 's%d_%s.y' % (i, style))
            open(p, 'w').write(render(sp, rnd, style))
            specs.append((sp, style)); paths.append(p)
    t0 = time.time()
    res = run_front(paths)
    bad = 0
    for (sp, style), p, (d, m, vd) in zip(specs, paths, res):
        if not d.get('ok'):
            print(p, 'IMPL FAIL', impl_error_class(d), (d.get('asterr') or '')[:100]); bad += 1
            continue
        dd = compare_denotation(denote(sp), read_back(d)) + check_codes(denote(sp), read_back(d))
        if dd or vd:
            bad += 1
            print(p, dd[:3], vd[:3])
    print('files', len(paths), 'bad', bad, 'time %.1f' % (time.time() - t0))
