#!/usr/bin/env python3
"""The AST of the real parser (parser.Parse, through `dump -ast`) against the Coq model YParser.parse_text (extracted,
lexer model included) on the same bytes.  ASCII texts only."""
import os, sys
sys.path.insert(0, os.path.dirname(os.path.abspath(__file__)))
import vlib


def unhx(h):
    return b'' if h == '-' else bytes.fromhex(h)


def model_asts(texts):
    chunks = ['Y t%d %s\n' % (i, (t if isinstance(t, bytes) else t.encode()).hex() or '-') for i, t in enumerate(texts)]
    lines = vlib.model_eval_chunks(chunks)
    out = {}
    for ln in lines:
        f = ln.rstrip('\n').split(' ')
        if f[0] != 'Y':
            continue
        i = int(f[1][1:])
        m = out.setdefault(i, dict(result=None, tokens=[], precs=[], types=[], rules=[]))
        if f[2] == 'result':
            m['result'] = f[3]
        elif f[2] == 'head':
            m['code'], m['union'], m['start'], m['rest'] = [unhx(x) for x in f[3:7]]
        elif f[2] == 'tokline':
            g = [x for x in f[3:] if x != '']
            m['tokens'].append([(unhx(g[k]), int(g[k + 1]), int(g[k + 2]), unhx(g[k + 3]), unhx(g[k + 4])) for k in range(0, len(g), 5)])
        elif f[2] == 'precline':
            g = [x for x in f[3:] if x != '']
            m['precs'].append([(int(g[k]), unhx(g[k + 1])) for k in range(0, len(g), 2)])
        elif f[2] == 'type':
            m['types'].append((unhx(f[3]), unhx(f[4])))
        elif f[2] == 'rule':
            g = [x for x in f[5:] if x != '']
            m['rules'].append((unhx(f[3]), unhx(f[4]), [(int(g[k]), unhx(g[k + 1])) for k in range(0, len(g), 2)]))
    return [out.get(i, dict(result='missing')) for i in range(len(texts))]


def b(s):
    # the text of a lexical error (with line and column) can end up as a tag or value: the model's error token has no text
    if s.startswith('at line ') and (' , pos ' in s):
        return b''
    return s.encode('utf8', 'surrogateescape')


def impl_ast(d):
    """(class, ast-as-model-shaped dict)"""
    if d.get('timeout'):
        return 'timeout', None
    a = d.get('ast')
    if a is None:
        e = d.get('asterr') or ''
        if 'do not has declare' in e:
            return 'nodeclare', None
        if 'parser error!' in e:
            return 'nosection', None
        if 'parser err' in e:
            return 'badrules', None
        return 'other:' + e[:80], None
    m = dict(code=b(a['code']), union=b(a['union']), start=b(a['start']), rest=(d['epilogue'].encode('utf8', 'surrogateescape') if d.get('ok') else None),
             tokens=[[(b(i['name']), i['typ'], i['value'], b(i['tag']), b(i['alias'])) for i in line] for line in a['tokens']],
             precs=[[(p['assoc'], b(p['name'])) for p in line] for line in a['precs']],
             types=[(b(t['tag']), b(t['name'])) for t in a['types']],
             rules=[(b(r['lhs']), b(r['prec']), [(e['t'], b(e['e'])) for e in r['rhs']]) for r in a['rules']])
    return 'ast', m


def diff_ast(m, i):
    for f in ('code', 'union', 'start', 'tokens', 'precs', 'types') + (('rest',) if i.get('rest') is not None else ()):
        if m.get(f) != i.get(f):
            return '%s: model %r implementation %r' % (f, str(m.get(f))[:160], str(i.get(f))[:160])
    if len(m['rules']) != len(i['rules']):
        return 'number of rules: model %d implementation %d' % (len(m['rules']), len(i['rules']))
    for k, (x, y) in enumerate(zip(m['rules'], i['rules'])):
        if x != y:
            return 'rule %d: model %r implementation %r' % (k + 1, x, y)
    return None


def compare(ctx, texts, paths, dumps=None, label='parser'):
    idx = [i for i, t in enumerate(texts) if all((c if isinstance(c, int) else ord(c)) < 128 for c in t)]
    if dumps is None:
        dumps = vlib.run_dump(paths, flags=['-ast'])
    ms = model_asts([texts[i] for i in idx])
    bad = 0
    classes = {}
    for j, i in enumerate(idx):
        d = dumps[i]
        ic, ia = impl_ast(d)
        mc = ms[j].get('result')
        classes[mc] = classes.get(mc, 0) + 1
        what = None
        if mc == 'FUEL':
            what = 'the parser model ran out of fuel'
        elif ic != mc:
            what = 'verdict: model %s, implementation %s' % (mc, ic)
        elif mc == 'ast':
            what = diff_ast(ms[j], ia)
        if what:
            bad += 1
            if bad <= 3:
                t = texts[i] if isinstance(texts[i], str) else texts[i].decode('latin1')
                ctx.violation('no-failing-input-found', 'the parser model and the implementation differ on the same text: %s' % what,
                              dict(text=t, text_sha=vlib.sha(t), detail=what), interface='I1a')
    return dict(texts_compared=len(idx), classes=classes, differences=bad)


if __name__ == '__main__':
    import random, front, gram

    class C:
        def __init__(self):
            self.v = []

        def violation(self, *a, **k):
            self.v.append(a)
    rnd = random.Random(int(sys.argv[1]) if len(sys.argv) > 1 else 1)
    work = os.path.join(vlib.WORK, 'parse-test')
    os.makedirs(work, exist_ok=True)
    texts, paths = [], []
    for i in range(300):
        sp = front.decorate(gram.random_usable(rnd, p_prec=0.4, p_lit=0.5), rnd)
        t = front.render(sp, rnd, rnd.choice(['plain', 'random', 'dense', 'lines']))
        bb = t.encode()
        if i % 2:
            for _ in range(rnd.randint(1, 2)):
                k = rnd.randrange(len(bb))
                bb = bb[:k] + rnd.choice([b'$', b'$$', b'$1', b"'", b'"', b'/*', b'%', b'%x', b'{', b'}', b'\\', b'-', b'%union', b'%{', b'%}', b':', b'|', b';', b'<', b'>', b'%prec', b'%token', b'%type', b'%start', b'%left', b'7', b' x ', b'%%']) + bb[k + rnd.randint(0, 4):]
        p = os.path.join(work, 'l%d.y' % i)
        open(p, 'wb').write(bb)
        texts.append(bb); paths.append(p)
    c = C()
    print(compare(c, texts, paths))
    for v in c.v[:5]:
        print(v[1][:400])
