#!/usr/bin/env python3
"""Checks on what the generator emits: C16 (generated code is well formed), C17 (the parse trace tells
the truth), C18 (debug listing and DOT graph describe the generated parser)."""
import concurrent.futures as cf, json, os, random, re, shutil, subprocess, sys
sys.path.insert(0, os.path.dirname(os.path.abspath(__file__)))
import vlib, gram, genrun, front

# ---------------------------------------------------------------- C16
GO_ACTS = [
    lambda k: '{ $$ = %s }' % ('$1' if k >= 1 else '7'),
    lambda k: '{ $$ = (%s + 7) %% 5 }' % ('$%d' % k if k >= 1 else '1'),
    lambda k: '{ fmt.Printf("%%d %%s 100%%%%\\n", %s, "x{y}"); $$ = 0 }' % ('$1' if k >= 1 else '0'),
    lambda k: '{ /* a comment */ $$ = 1 /* another */ }',
    lambda k: '{ // line comment\n $$ = 2 }',
    lambda k: '{ if %s > 0 { $$ = 1 } else { $$ = 2 } }' % ('$%d' % k if k >= 1 else '3'),
    lambda k: '{ s := "a\\"b%"; _ = s; $$ = 3 }',
    lambda k: "{ r := '%'; _ = r; $$ = 4 }",
    lambda k: '{ x := `raw $ string`; _ = x; $$ = 5 }',
    lambda k: '{ $$ = %s }' % (' + '.join('$%d' % (j + 1) for j in range(k)) if k else '0'),
    lambda k: '{\n\t\t$$ = 0\n\t\tfor i := 0; i < 3; i++ {\n\t\t\t$$ += i\n\t\t}\n\t}',
    # quote characters that are not part of a literal (an apostrophe in a comment, a lone backquote or double quote): only braces
    # delimit an action, and two such actions in one file must not pair up
    lambda k: "{ // we don't re-check them\n $$ = 4 }",
    lambda k: "{ /* can't overflow */ $$ = 5 }",
    lambda k: '{ /* say "hi */ $$ = 6 }',
    lambda k: '{ // a ` backquote\n $$ = 8 }',
]
TS_ACTS = [
    lambda k: '{ $$ = %s }' % ('$1' if k >= 1 else '7'),
    lambda k: '{ $$ = (%s + 7) %% 5 }' % ('$%d' % k if k >= 1 else '1'),
    lambda k: '{ let s = `${1} %%d`; $$ = s.length }',
    lambda k: '{ /* a comment */ $$ = 1 /* another */ }',
    lambda k: '{ // line comment\n $$ = 2 }',
    lambda k: '{ if (%s > 0) { $$ = 1 } else { $$ = 2 } }' % ('$%d' % k if k >= 1 else '3'),
    lambda k: '{ let s = "a\\"b%"; $$ = s.length }',
    lambda k: "{ let r = '%'; $$ = r.length }",
    lambda k: '{ $$ = %s }' % (' + '.join('$%d' % (j + 1) for j in range(k)) if k else '0'),
    lambda k: "{ // we don't re-check them\n $$ = 4 }",
    lambda k: "{ /* can't overflow */ $$ = 5 }",
    lambda k: '{ /* say "hi */ $$ = 6 }',
]
C16_LITS = "+-*/=<>()[],.!&^#@~?|{}\"%$:;'`_ 0aZ"
GO_EPI = '\nfunc GetToken(input string, valTy *ValType, pos *int) int { return -1 }\n'
TS_EPI = '\nfunction GetToken(input :string, model:{ValType :ValType, pos :number}) :number { return -1 }\n'


def c16_grammars(ctx):
    rnd = random.Random(ctx.seed * 52361 + 13)
    gs = []
    for k, g in gram.curated().items():
        gs.append(('c_' + k, genrun.fix_tags(g)))
    # every literal character of the pool in one grammar each way
    lits = list(C16_LITS)
    for part in range(0, len(lits), 6):
        chunk = lits[part:part + 6]
        terms = [dict(name='t%d' % i, lit=c, tag='v0', num=None, declared=True) for i, c in enumerate(chunk)]
        rules = [dict(lhs=0, rhs=[('t', i)], prec=None, c=i, coef=[1]) for i in range(len(chunk))]
        rules.append(dict(lhs=0, rhs=[('n', 0), ('t', 0), ('n', 0)], prec=None, c=0, coef=[1, 0, 1]))
        gs.append(('lit%d' % part, dict(terms=terms, nonterms=[dict(name='e', tag='v1')], precs=[('left', [0])], rules=rules, start=0)))
    for i in range(3 if ctx.quick else 12):
        gs.append(('long%d' % i, genrun.fix_tags(gram.long_rule_grammar(rnd))))      # rules with 10-13 symbols: $10 .. $13 next to $1
    for i in range(3 if ctx.quick else 12):
        gs.append(('dup%d' % i, genrun.fix_tags(gram.dup_rule_grammar(rnd))))        # a production written twice, productions after the copy
    # the line feed as a character literal (a quote, a real line break, a quote - the only way to write it), used in a rule
    lf = gram.from_text('lines: line | lines line ; line: x N | x + x N')
    for t in lf['terms']:
        if t['name'] == 'N':
            t['lit'], t['name'] = '\n', 'lf'
    gs.append(('lf_literal', genrun.fix_tags(lf)))
    n = 40 if ctx.quick else 300
    for i in range(n):
        kind = i % 4
        if kind == 0:
            g = gram.operator_grammar(rnd)
        elif kind == 1:
            g = gram.random_usable(rnd, nT=rnd.randint(2, 6), nN=rnd.randint(1, 4), p_lit=0.6, p_prec=0.4)
            for t, l in zip(g['terms'], rnd.sample(C16_LITS, len(g['terms']))):
                if t['lit']:
                    t['lit'] = l
        elif kind == 2:
            g = gram.random_usable(rnd, nT=rnd.randint(1, 4), nN=rnd.randint(2, 5), max_alts=5, max_len=4, p_term=0.4)
        else:
            g = gram.random_usable(rnd, nT=rnd.randint(2, 5), nN=rnd.randint(1, 3), p_prec=0.5)
        gs.append(('r%d' % i, genrun.fix_tags(g)))
    return gs


def c16_text(g, pkg, lang, rnd):
    acts = GO_ACTS if lang == 'go' else TS_ACTS

    def action(idx, r):
        k = len(r['rhs'])
        if k >= 10:
            # every reference of a long rule, one-digit ones before the two-digit ones that start with the same digit
            return '{ $$ = %s }' % ' + '.join('$%d' % (j + 1) for j in range(k))
        return rnd.choice(acts)(k)
    # the %union body as people lay it out: one field per line, the first field on the line of the brace, everything on one line
    style = rnd.randrange(4)
    if lang == 'go':
        union = ['{\n v0 int\n v1 int\n v2 int\n}', '{\n v0 int\n v1 int\n v2 int\n}', '{ v0 int\n v1 int\n v2 int }', '{ v0 int; v1 int; v2 int }'][style]
        head = '%{\npackage ' + pkg + '\nimport "fmt"\n%}\n%union ' + union + '\n'
        epi = GO_EPI + 'var _ = fmt.Sprint\n'
        if style == 1:
            # a long line (a usage text of 6000 bytes in one string literal): a line break anywhere inside it would be a syntax error
            epi += 'const zzUsage = "' + 'usage: calc [options] file; ' * 215 + '"\n'
    else:
        union = ['{\n v0 :number = 0;\n v1 :number = 0;\n v2 :number = 0;\n}', '{\n v0 :number = 0;\n v1 :number = 0;\n v2 :number = 0;\n}',
                 '{ v0 :number = 0;\n v1 :number = 0;\n v2 :number = 0; }', '{ v0 :number = 0; v1 :number = 0; v2 :number = 0; }'][style]
        head = '%{\n"use strict";\n%}\n%union ' + union + '\n'
        epi = TS_EPI
        if style == 1:
            epi += 'const zzUsage :string = "' + 'usage: calc [options] file; ' * 215 + '";\n'
    return head + genrun.decl_block(g, lang) + '%%\n' + gram.render_rules(g, action) + '%%\n' + epi


def run_C16(ctx):
    bindir = vlib.build_impl()
    yaccgo = os.path.join(bindir, 'yaccgo')
    gs = c16_grammars(ctx)
    rnd = random.Random(ctx.seed * 3 + 1)
    work = os.path.join(vlib.WORK, 'c16-%d' % os.getpid())
    shutil.rmtree(work, ignore_errors=True)
    os.makedirs(work)
    try:
        open(os.path.join(work, 'go.mod'), 'w').write('module probe\ngo 1.18\n')
        tasks = []
        texts = {}
        for gi, (gname, g) in enumerate(gs):
            for (vn, flags, obj) in genrun.GO_VARIANTS:
                pkg = 'p%d%s' % (gi, vn)
                os.makedirs(os.path.join(work, pkg))
                y = os.path.join(work, pkg, 'g.y')
                t = c16_text(g, pkg, 'go', random.Random(ctx.seed * 977 + gi))
                open(y, 'w').write(t)
                texts[(gname, vn)] = t
                tasks.append((gname, vn, [yaccgo, 'generate', 'go'] + flags + [y, os.path.join(work, pkg, 'p.go')]))
            y = os.path.join(work, 'g%d.y' % gi)
            t = c16_text(g, '', 'ts', random.Random(ctx.seed * 977 + gi))
            open(y, 'w').write(t)
            texts[(gname, 'ts')] = t
            tasks.append((gname, 'ts', [yaccgo, 'generate', 'typescript', y, os.path.join(work, 'g%d.ts' % gi)]))

        # declaration mixes (explicit numbers, re-declarations, tokens known only from precedence lines or rules, -1 alias)
        import frontprops
        mixes = frontprops.c11_specs(ctx)[:(80 if ctx.quick else 400)]
        base = len(gs)
        for mi, (mname, sp) in enumerate(mixes):
            gi = base + mi
            gs.append((mname, None))
            for (vn, flags, obj) in genrun.GO_VARIANTS:
                pkg = 'p%d%s' % (gi, vn)
                os.makedirs(os.path.join(work, pkg))
                sp2 = dict(sp, prologue='\npackage %s\nimport "fmt"\n' % pkg)
                t = front.render(sp2, random.Random(ctx.seed * 13 + mi), 'plain')
                y = os.path.join(work, pkg, 'g.y')
                open(y, 'w').write(t)
                texts[(mname, vn)] = t
                tasks.append((mname, vn, [yaccgo, 'generate', 'go'] + flags + [y, os.path.join(work, pkg, 'p.go')]))
            sp3 = dict(sp, prologue='\n"use strict";\n', union='\n v0 :number = 0;\n v1 :number = 0;\n v2 :number = 0;\n', epilogue=TS_EPI)
            t = front.render(sp3, random.Random(ctx.seed * 13 + mi), 'plain')
            y = os.path.join(work, 'g%d.y' % gi)
            open(y, 'w').write(t)
            texts[(mname, 'ts')] = t
            tasks.append((mname, 'ts', [yaccgo, 'generate', 'typescript', y, os.path.join(work, 'g%d.ts' % gi)]))

        def gen1(t):
            gname, vn, cmd = t
            # the regenerate-in-place cycle: the output path already holds an older, longer generated file
            with open(cmd[-1], 'w') as f:
                f.write('// Code generated by an earlier run.\n' + '/* older text */ }\n' * 40000)
            try:
                r = subprocess.run(cmd, capture_output=True, text=True, timeout=30)
                return gname, vn, r.returncode, (r.stderr + r.stdout)[-500:]
            except subprocess.TimeoutExpired:
                return gname, vn, None, 'TIMEOUT'
        with cf.ThreadPoolExecutor(16) as ex:
            gen = {(g, v): (rc, err) for (g, v, rc, err) in ex.map(gen1, tasks)}
        idx = {gname: gi for gi, (gname, _) in enumerate(gs)}
        # files reported as generated must be complete programs: go vet (which type-checks) + go build, all packages at once
        ok_pkgs = {}
        for (gname, vn), (rc, err) in gen.items():
            ctx.evaluations += 1
            if rc != 0:
                # a refusal with a diagnostic is not a C16 matter; the corpus is meant to be accepted, so say so
                ctx.violation('no-failing-input-found', 'C16 corpus grammar %s (%s) is refused by the generator: %s' % (gname, vn, err[-200:]),
                              dict(grammar=gname, variant=vn, grammar_text=texts[(gname, vn)], grammar_sha=vlib.sha(texts[(gname, vn)])), interface='I7')
                pd = os.path.join(work, 'p%d%s' % (idx[gname], vn))
                if vn != 'ts':
                    shutil.rmtree(pd, ignore_errors=True)
                continue
            ctx.nontrivial.add((gname, vn))
            if vn != 'ts':
                ok_pkgs['p%d%s' % (idx[gname], vn)] = (gname, vn)
        r = subprocess.run(['go', 'vet', './...'], cwd=work, capture_output=True, text=True, env=vlib.GOENV)
        r2 = subprocess.run(['go', 'build', './...'], cwd=work, capture_output=True, text=True, env=vlib.GOENV)
        msgs = {}
        for ln in (r.stderr + '\n' + r2.stderr).splitlines():
            m = re.match(r'^(?:\./)?(p\d+\w\w)/p\.go:(\d+):(\d+): (.*)$', ln) or re.match(r'^# probe/(p\d+\w\w)()()(.*)$', ln)
            if m and m.group(1) in ok_pkgs:
                msgs.setdefault(m.group(1), [])
                if m.group(4):
                    msgs[m.group(1)].append('line %s: %s' % (m.group(2), m.group(4)))
        if (r.returncode != 0 or r2.returncode != 0) and not msgs:
            ctx.violation('no-failing-input-found', 'go vet/build of the generated parsers failed without naming a package: %s' % (r.stderr + r2.stderr)[-600:], {}, interface='I7')
        for pkg, ms in sorted(msgs.items()):
            gname, vn = ok_pkgs[pkg]
            t = texts[(gname, vn)]
            out = open(os.path.join(work, pkg, 'p.go')).read()
            first = ms[0] if ms else 'does not compile'
            ln = re.match(r'line (\d+)', first)
            ctxline = out.splitlines()[int(ln.group(1)) - 1][:160] if ln and int(ln.group(1)) <= len(out.splitlines()) else ''
            ctx.violation('counterexample', 'yaccgo generates %s for grammar %s without complaint, but the file is not a valid Go program: %s | %s' % (vn, gname, first, ctxline),
                          dict(grammar=gname, variant=vn, grammar_text=t, grammar_sha=vlib.sha(t), observed=ms[:6], generated_line=ctxline), interface='I7')
        # TypeScript: the file must load
        ts_note = None
        if vlib.NODE22 is None:
            ts_note = 'node >= 22 not found: TypeScript variant not covered'
        else:
            def ts1(gi):
                gname = gs[gi][0]
                if gen.get((gname, 'ts'), (1, ''))[0] != 0:
                    return gname, None
                try:
                    rr = subprocess.run([vlib.NODE22, '--experimental-strip-types', '--no-warnings', os.path.join(work, 'g%d.ts' % gi)], capture_output=True, text=True, timeout=60)
                    return gname, (rr.returncode, rr.stderr[-600:])
                except subprocess.TimeoutExpired:
                    return gname, (None, 'TIMEOUT')
            with cf.ThreadPoolExecutor(12) as ex:
                for gname, rr in ex.map(ts1, range(len(gs))):
                    if rr is not None and rr[0] != 0:
                        t = texts[(gname, 'ts')]
                        err = [l for l in rr[1].splitlines() if 'Error' in l][:1] or [rr[1][-200:]]
                        ctx.violation('counterexample', 'yaccgo generates typescript for grammar %s without complaint, but the file does not load: %s' % (gname, err[0]),
                                      dict(grammar=gname, variant='ts', grammar_text=t, grammar_sha=vlib.sha(t), observed=rr[1][-600:]), interface='I7')
        ctx.extra['ts'] = ts_note or 'covered'
        ctx.extra['grammars'] = len(gs)
        ctx.extra['go_packages_compiled'] = len(ok_pkgs)
        ctx.extra['action_code_model'] = action_code_compare(ctx, gs, gen, texts, work)
        for (gname, vn) in list(gen)[:3]:
            ctx.sample(dict(grammar=gname, variant=vn, generator_exit=gen[(gname, vn)][0], head=texts[(gname, vn)][140:300]))
    finally:
        shutil.rmtree(work, ignore_errors=True)


def action_code_compare(ctx, gs, gen, texts, work):
    """The code emitted for every semantic action (default Go variant and TypeScript) against the Coq model
    EmitAction.subst_action run on the implementation's own action text and tags (from the in-process dump)."""
    jobs = []          # (gname, lang, path of .y, path of generated file)
    for gi, (gname, g) in enumerate(gs):
        if gen.get((gname, 'gp'), (1, ''))[0] == 0:
            jobs.append((gname, 0, os.path.join(work, 'p%dgp' % gi, 'g.y'), os.path.join(work, 'p%dgp' % gi, 'p.go')))
        if gen.get((gname, 'ts'), (1, ''))[0] == 0:
            jobs.append((gname, 1, os.path.join(work, 'g%d.y' % gi), os.path.join(work, 'g%d.ts' % gi)))
    return action_code_jobs(ctx, jobs, lambda gname, lang: texts.get((gname, 'gp' if lang == 0 else 'ts'), ''))


def action_code_jobs(ctx, jobs, text_of, interface='I7'):
    """jobs: (name, lang 0=go 1=typescript, path of the .y file, path of the file generated from it)."""
    hx = lambda t: t.encode('utf8').hex() or '-'
    dumps = vlib.run_dump([j[2] for j in jobs])
    cmds, want = [], {}
    for ji, ((gname, lang, y, outp), d) in enumerate(zip(jobs, dumps)):
        if not d.get('ok'):
            continue
        tag_of = {s['id']: s['tag'] for s in d['symbols']}
        for ri, r in enumerate(d['rules']):
            if ri == 0:
                continue
            key = 'j%dr%d' % (ji, ri)
            want[key] = (ji, ri)
            cmds.append('B %s %d %s %d %s %s\n' % (key, lang, hx(tag_of.get(r['lhs'], '')), len(r['rhs'] or []),
                                                  ' '.join(hx(tag_of.get(x, '')) for x in (r['rhs'] or [])), hx(r['action'] or '')))
    model = {}
    for ln in vlib.model_eval_chunks(cmds):
        f = ln.split()
        if len(f) >= 3 and f[0] == 'B':
            model[f[1]] = bytes.fromhex(f[3]).decode('utf8', 'replace') if (f[2] == 'ok' and len(f) > 3 and f[3] != '-') else ('' if f[2] == 'ok' else None)
    n = bad = refs = 0
    for key, (ji, ri) in want.items():
        gname, lang, y, outp = jobs[ji]
        src = open(outp).read()
        if lang == 0:
            m = re.search(r'case %d: \n\tdollarDolar\.YySymIndex = \d+\n\tDollar := [^\n]*\n\t_ = Dollar\n\n/\*\n.*?\*/\n(.*?)\n\t(?:c\.)?PopStateSym\(\d+\)\n' % ri, src, re.S)
        else:
            m = re.search(r'case %d: \{\n\tdollarDolar\.YySymIndex = \d+\n\tlet Dollar = [^\n]*\n\n/\*\n.*?\*/\n(.*?)\n\tPopStateSym\(\d+\);\n\tbreak;\n\}\n' % ri, src, re.S)
        n += 1
        ctx.evaluations += 1
        got = m.group(1) if m else None
        exp = model.get(key, 'NO ANSWER')
        if exp and '$' in (dumps[ji]['rules'][ri]['action'] or ''):
            refs += 1
        if got != exp:
            bad += 1
            if bad <= 2:
                t = text_of(gname, lang)
                ctx.violation('no-failing-input-found' if got is None else 'counterexample',
                              'grammar %s (%s), rule %d: the code emitted for the action is %r, the model of the substitution ($$ -> value field of the left-hand side, $n -> field of symbol n) gives %r'
                              % (gname, 'go' if lang == 0 else 'typescript', ri, got, exp),
                              dict(grammar=gname, variant='gp' if lang == 0 else 'ts', grammar_text=t, grammar_sha=vlib.sha(t), rule=ri, observed=got, expected=exp), interface=interface)
    return dict(actions_compared=n, with_dollar_references=refs, differences=bad)


# ---------------------------------------------------------------- C17
SHIFT_RE = re.compile(r'^Shift (.*), push state (\d+)$')
RED_RE = re.compile(r'^look ahead (.*), use Reduce:(.*), go to state (\d+)$')


def remove_temp(n):
    return "'" + n[9:] + "' " if len(n) > 9 and n.startswith('$operator') else n


def run_C17(ctx):
    import props
    out = props.i6_shared(ctx)
    ntr = 0
    # the names the trace prints are the names written in the grammar (a literal 'c' is printed as 'c'): checked against the file,
    # not against the generator's own symbol table
    for gname, g in sorted(out['grammars'].items()):
        d = out['dumps'].get(gname)
        if not d or not d.get('ok'):
            continue
        have = set(s['name'] for s in d['symbols'])
        want = [gram.internal_name(g, ('t', i)) for i, t in enumerate(g['terms']) if not t.get('hidden')] + [gram.internal_name(g, ('n', j)) for j in range(len(g['nonterms']))]
        missing = [n for n in want if n not in have]
        ctx.evaluations += 1
        if missing:
            extra = sorted(have - set(want) - {'start', '$'})
            ctx.violation('counterexample', 'grammar %s: the symbols the trace names include %s, the grammar calls them %s' % (gname, extra[:4], missing[:4]),
                          props.case_of(out, gname, observed=sorted(have), expected=want), interface='I6')
    for (gname, vn, payload), lines in sorted(out['trace'].items()):
        d = out['dumps'].get(gname)
        if not d or not d.get('ok'):
            continue
        g = out['grammars'][gname]
        nested = payload.startswith('N:')
        if nested:
            # a traced parse with another traced parse running in the middle of it (its lines were cut out): input = the outer one
            raw = out['res'][gname][vn].get(('tracen', payload[2:]))
            payload = payload[2:].split(',')[0]
        else:
            raw = out['res'][gname][vn].get(('trace', payload))
        if raw is None:
            continue
        ir = genrun.parse_result(raw)
        if ir['kind'] in ('L', 'T'):
            continue
        ctx.evaluations += 1
        ntr += 1
        syms = d['symbols']
        name_of = {s['id']: remove_temp(s['name']) for s in syms}
        rules = d['rules']
        gt = d['gtable']
        err, acc = d['errcode'], d['acccode']
        tids = out['tids'][gname]
        toks = []
        for ch in payload:
            c = ord(ch) - 97
            toks.append(tids[c] if 0 <= c < len(tids) and tids[c] is not None else 0)
        toks.append(1)
        case = props.case_of(out, gname, variant=vn, input=payload, mode='trace', observed=lines[:40])
        # replay of the printed run on the implementation's own table
        stack = [0]
        pos = 0
        reds = []
        problem = None
        evs = [l for l in lines if l.strip()]
        i = 0
        while i < len(evs) and problem is None:
            ln = evs[i]
            m = SHIFT_RE.match(ln)
            r = RED_RE.match(ln) if not m else None
            if m:
                a = toks[pos] if pos < len(toks) else 1
                cell = gt[stack[-1]][a]
                if m.group(1) != name_of.get(a, '?'):
                    problem = 'line %d prints a shift of %r, the token read at this point is %r' % (i + 1, m.group(1), name_of.get(a))
                elif cell in (err, acc) or cell <= 0 or cell != int(m.group(2)):
                    problem = 'line %d prints "push state %s" for token %r in state %d, the table says %s' % (i + 1, m.group(2), m.group(1), stack[-1], vlib.decode_cell(cell, err, acc))
                else:
                    stack.append(cell); pos += 1
            elif r:
                a = toks[pos] if pos < len(toks) else 1
                cell = gt[stack[-1]][a]
                if cell >= 0 or cell in (err, acc):
                    problem = 'line %d prints a reduction in state %d on %r, the table says %s' % (i + 1, stack[-1], name_of.get(a), vlib.decode_cell(cell, err, acc))
                else:
                    rl = rules[-cell]
                    # the text of the production the table cell names (symbols of the grammar the tables were built from)
                    want = 'use Reduce:%s -> %s' % (name_of.get(rl['lhs'], '?'), ''.join(name_of.get(x, '?') + ' ' for x in (rl['rhs'] or [])))
                    if r.group(1) != name_of.get(a, '?'):
                        problem = 'line %d prints lookahead %r, the reduction was triggered by %r' % (i + 1, r.group(1), name_of.get(a))
                    elif 'use Reduce:' + r.group(2) != want:
                        problem = 'line %d prints the rule text %r, rule %d is %r' % (i + 1, r.group(2), -cell, want[11:])
                    else:
                        k = len(rl['rhs'])
                        if k:
                            del stack[-k:]
                        go = gt[stack[-1]][rl['lhs']]
                        if go != int(r.group(3)):
                            problem = 'line %d prints "go to state %s" after reducing by rule %d, the table says %s' % (i + 1, r.group(3), -cell, go)
                        else:
                            reds.append(-cell)
                            # the goto push is traced as a Shift of the left-hand side
                            nxt = evs[i + 1] if i + 1 < len(evs) else ''
                            m2 = SHIFT_RE.match(nxt)
                            if not m2 or m2.group(1) != name_of.get(rl['lhs']) or int(m2.group(2)) != go:
                                problem = 'after the reduction on line %d the goto push of %r to state %d is not traced (next line: %r)' % (i + 1, name_of.get(rl['lhs']), go, nxt)
                            else:
                                stack.append(go); i += 1
            else:
                problem = 'line %d is not a trace line: %r' % (i + 1, ln[:120])
            i += 1
        if problem is None and not g.get('plain_actions') and reds != ir['reds']:
            problem = 'the trace shows the reductions %s, the parser executed %s' % (reds, ir['reds'])
        if problem is None:
            # the run must be traced to its end: accept or error in the state reached
            a = toks[pos] if pos < len(toks) else 1
            cell = gt[stack[-1]][a]
            if ir['kind'] == 'A' and cell != acc:
                problem = 'the parser accepted, but after the traced actions the table says %s' % vlib.decode_cell(cell, err, acc)
            elif ir['kind'] == 'E' and cell != err:
                problem = 'the parser reported a syntax error, but after the traced actions the table says %s: actions are missing from the trace' % vlib.decode_cell(cell, err, acc)
        if reds:
            ctx.nontrivial.add((gname, vn, payload))
        if problem:
            ctx.violation('counterexample', 'grammar %s variant %s input %r with IsTrace on: %s' % (gname, vn, payload, problem), dict(case, expected='a faithful trace', detail=problem), interface='I6t')
        elif ntr % 37 == 1:
            ctx.sample(dict(grammar=gname, variant=vn, input=payload, trace=evs[:6]))
    ctx.extra['traced_runs'] = ntr
    # "a legal run of the grammar's LR automaton": the traces above are replayed on the table the parsers were generated from; that
    # table must be the proved one (model built from the text of the same file)
    if not props.had_counterexample(ctx):
        props.report_corr(ctx, props.backend_diffs_of_i6(out), {'I1', 'I2', 'I3', 'I4', 'I5'}, 'C17')


# ---------------------------------------------------------------- C18
def item_text_listing(d, r, dot):
    rl = d['rules'][r]
    names = [d['symbols'][x]['name'] for x in rl['rhs']]
    return d['symbols'][rl['lhs']]['name'] + '-->' + ''.join(' %s ' % x for x in names[:dot]) + '@' + ''.join(' %s ' % x for x in names[dot:])


def dot_unescape(s):
    out, i = [], 0
    while i < len(s):
        if s[i] == '\\' and i + 1 < len(s):
            out.append(s[i + 1]); i += 2
        else:
            out.append(s[i]); i += 1
    return ''.join(out)


def split_record(label):
    """DOT record label -> list of top-level fields; a field in braces becomes the list of its sub-fields.
    Backslash escapes protect the following character. Returns None if the braces do not balance."""
    top, stack, cur = [], [], []
    target = top
    i = 0
    while i < len(label):
        c = label[i]
        if c == '\\' and i + 1 < len(label):
            cur.append(label[i + 1]); i += 2
            continue
        if c == '|':
            target.append(''.join(cur)); cur = []
        elif c == '{':
            new = []
            stack.append((target, new))
            target = new
            cur = []
        elif c == '}':
            if not stack:
                return None
            target.append(''.join(cur)); cur = []
            outer, grp = stack.pop()
            outer.append(grp)
            target = outer
            # the group itself is the field: skip the empty text that follows until the next separator
            j = i + 1
            if j < len(label) and label[j] == '|':
                i = j
        else:
            cur.append(c)
        i += 1
    if stack:
        return None
    if cur or not top or label.endswith('|'):
        target.append(''.join(cur))
    return top


def raw_name(n):
    return remove_temp(n)


def item_text_dot(d, r, dot):
    """The text of an item as the diagram must show it (after DOT unescaping)."""
    rl = d['rules'][r]
    s = d['symbols'][rl['lhs']]['name'] + '->'
    if not rl['rhs']:
        return s + 'ε'
    for k, x in enumerate(rl['rhs']):
        if k == dot:
            s += '•'
        s += ' ' + raw_name(d['symbols'][x]['name'])
    if dot == len(rl['rhs']):
        s += '•'
    return s


def parse_listing(text, trans=None):
    states, la = [], {}
    sec = None
    cur = None
    for ln in text.splitlines():
        if ln.startswith('--------state '):
            cur = dict(items=[], gotos=[])
            states.append(cur)
            sec = 'items'
        elif ln.startswith('GOTO:'):
            sec = 'gotos'
        elif ln.startswith('====='):
            sec = ln.strip('= ')
            cur = None
        elif sec == 'items' and cur is not None:
            cur['items'].append(ln)
        elif sec == 'gotos' and cur is not None:
            m = re.match(r'^at (.*) goto (-?\d+) $', ln)
            if m:
                cur['gotos'].append((m.group(1), int(m.group(2))))
            else:
                cur['gotos'].append(('?' + ln, -1))
        elif sec and sec.startswith('SHOW TRANS'):
            if trans is not None:
                trans.append(ln)
        elif sec and sec.startswith('Show LookAhead'):
            m = re.match(r'^(\d+):(.*-->.*?) : (.*)$', ln)
            if m:
                la.setdefault((int(m.group(1)), m.group(2)), []).append(sorted(m.group(3).split()))
    return states, la


def parse_dot(text):
    nodes, edges = {}, []
    for ln in text.splitlines():
        ln = ln.strip()
        m = re.match(r'^state_(\d+)->state_(\d+)\[ label="(.*)" \];$', ln)
        if m:
            edges.append((int(m.group(1)), dot_unescape(m.group(3)), int(m.group(2))))
            continue
        m = re.match(r'^state_(\d+) \[ (.*) \];$', ln)
        if m:
            attrs = m.group(2)
            lab = re.search(r'label="(.*?)", shape=', attrs) or re.search(r'label="(.*)"', attrs)
            nodes[int(m.group(1))] = dict(label=lab.group(1) if lab else None, filled='style=filled' in attrs, raw=attrs)
    return nodes, edges


def c18_grammars(ctx):
    rnd = random.Random(ctx.seed * 7717 + 21)
    gs = [('c_' + k, g) for k, g in gram.curated().items()]
    gs.append(('h_accept_reduce', gram.from_text("S: a | S opt b ; opt: | c")))
    gs.append(('h_angle', gram.from_text("S: S < S | S > S | x", (('left', ['<', '>']),))))
    # states with 13, 15 and 26 items (a calculator with a dozen binary operators and more)
    for k in (12, 14, 25):
        ops = 'abcdefghijklmnopqrstuvwyz'[:k]
        gs.append(('h_many_items%d' % k, gram.from_text('S: ' + ' | '.join('S %s S' % o for o in ops) + ' | x', (('left', list(ops)),))))
    mt = [dict(name='a', lit=None, tag='v0', num=None, declared=True)] + [dict(name='m%d' % i, lit=c, tag='v0', num=None, declared=True) for i, c in enumerate('{}"|')]
    mr = [dict(lhs=0, rhs=[('t', 0)], prec=None, c=0, coef=[1]), dict(lhs=0, rhs=[('n', 0), ('t', 4), ('n', 0)], prec=None, c=0, coef=[1, 1, 1]),
          dict(lhs=0, rhs=[('t', 1), ('n', 0), ('t', 2)], prec=None, c=0, coef=[1, 1, 1]), dict(lhs=0, rhs=[('t', 3)], prec=None, c=0, coef=[1])]
    gs.append(('h_meta', dict(terms=mt, nonterms=[dict(name='S', tag='v0')], precs=[('left', [4])], rules=mr, start=0)))
    for i in range(2 if ctx.quick else 8):
        gs.append(('h_long_first%d' % i, gram.long_first_grammar(rnd, pos=1 + i % 2)))
    for i in range(3 if ctx.quick else 12):
        gs.append(('h_nash%d' % i, gram.nonassoc_shared_grammar(rnd)))
    n = 60 if ctx.quick else 600
    for i in range(n):
        if i % 3 == 0:
            g = gram.operator_grammar(rnd)
        elif i % 3 == 1:
            g = gram.random_usable(rnd, nT=rnd.randint(1, 4), nN=rnd.randint(1, 4), p_term=0.4, p_prec=0.3)
        else:
            g = gram.random_usable(rnd, nT=rnd.randint(2, 5), nN=rnd.randint(1, 3), p_lit=0.5, p_prec=0.5)
            for t, l in zip(g['terms'], rnd.sample(C16_LITS, len(g['terms']))):
                if t['lit']:
                    t['lit'] = l
        gs.append(('r%d' % i, g))
    return gs


def run_C18(ctx):
    gs = c18_grammars(ctx)
    work = os.path.join(vlib.WORK, 'c18-%d' % os.getpid())
    shutil.rmtree(work, ignore_errors=True)
    os.makedirs(work)
    try:
        paths = []
        texts = []
        for gi, (gname, g) in enumerate(gs):
            p = os.path.join(work, 'g%d.y' % gi)
            t = gram.render_plain(g)
            open(p, 'w').write(t)
            paths.append(p); texts.append(t)
        dumps = vlib.run_dump(paths, flags=['-dot', '-debug'])
        # the Coq model of DrawGrammar (Draw.draw_nodes / draw_edges, extracted) on the table of the same run
        cmds = []
        for gi, d in enumerate(dumps):
            if d.get('ok'):
                gt = d['gtable']
                cmds.append('W g%d %d %d %s\n' % (gi, len(gt), len(gt[0]) if gt else 0, ' '.join(str(c) for row in gt for c in row)))
        mdraw = {}
        for ln in vlib.model_eval_chunks(cmds):
            f = ln.split()
            if len(f) >= 3 and f[0] == 'W':
                md = mdraw.setdefault(f[1], dict(edges=[], look={}, acc={}))
                if f[2] == 'E':
                    md['edges'] = [tuple(int(x) for x in e.split(':')) for e in f[3:]]
                elif f[2] == 'N':
                    md['acc'][int(f[3])] = f[4] == '1'
                    md['look'][int(f[3])] = [tuple(int(x) for x in e.split(':')) for e in f[5:]]
        for gi, ((gname, g), t, d) in enumerate(zip(gs, texts, dumps)):
            if not d.get('ok'):
                continue
            ctx.evaluations += 1
            case = dict(grammar=gname, grammar_text=t, grammar_sha=vlib.sha(t))
            err, acc = d['errcode'], d['acccode']
            gt = d['gtable']
            sname = {s['id']: s['name'] for s in d['symbols']}
            n = len(d['lr0'])
            problems = []
            # ---- listing of `debug` (same run as the tables)
            shown_trans = []
            states, la = parse_listing(d['stdout'], shown_trans)
            # the transition section: one line per symbol transition (state:symbol) and per completed item (state:rule text)
            want_trans = sorted(('%d:%s' % (tr[0], sname[d['rules'][tr[1]]['lhs']] + '-->' + ''.join(' %s ' % sname[x] for x in d['rules'][tr[1]]['rhs']))) if tr[2] == 1
                                else '%d:%s' % (tr[0], sname[tr[1]]) for tr in d['trans'])
            if sorted(shown_trans) != want_trans:
                miss = [x for x in want_trans if x not in shown_trans][:3]
                extra = [x for x in shown_trans if x not in want_trans][:3]
                problems.append('listing, transition section: missing %s, not transitions of the automaton: %s' % (miss, extra))
            if len(states) != n:
                problems.append('the listing shows %d states, the automaton has %d' % (len(states), n))
            for q, (st, real) in enumerate(zip(states, d['lr0'])):
                want_items = sorted(item_text_listing(d, r, dot) for (r, dot) in real['items'])
                if sorted(st['items']) != want_items:
                    problems.append('listing, state %d: items %s, the automaton has %s' % (q, sorted(st['items'])[:4], want_items[:4]))
                want_g = sorted((sname[x], to) for (x, to) in real['gotos'])
                if sorted(st['gotos']) != want_g:
                    problems.append('listing, state %d: transitions %s, the automaton has %s' % (q, sorted(st['gotos']), want_g))
                # every shift/goto of the generated table is a listed transition (conflict resolution may drop a shift, never add one)
                tab_g = sorted((sname[a], gt[q][a]) for a in range(len(gt[q])) if gt[q][a] > 0 and gt[q][a] not in (err, acc))
                extra = [x for x in tab_g if x not in st['gotos']]
                if extra:
                    problems.append('listing, state %d: the generated table shifts/gotos %s, which the listing does not show' % (q, extra))
            want_la = {}
            for idx, tr in enumerate(d['trans']):
                if tr[2] == 1:
                    rl = d['rules'][tr[1]]
                    key = (tr[0], sname[rl['lhs']] + '-->' + ''.join(' %s ' % sname[x] for x in rl['rhs']))
                    # (the listing separates the names of a set by blanks: a blank inside a name, as in the literal ' ', cannot be told from a separator)
                    want_la.setdefault(key, []).append(sorted(''.join(sname[x].split()) for x in d['la'].get(str(idx), [])))
            # a listed reduce lookahead is in the table, unless something competes for the cell (a shift on the same symbol or another
            # reduction with the same lookahead): conflict resolution removes candidates, nothing else does
            cand = {}
            for idx, tr in enumerate(d['trans']):
                if tr[2] == 1:
                    for a in d['la'].get(str(idx), []):
                        cand.setdefault((tr[0], a), []).append(tr[1])
            for (q, a), rs in sorted(cand.items()):
                shifts = any(x == a for (x, to) in d['lr0'][q]['gotos'])
                if len(rs) == 1 and not shifts and q < len(gt) and a < len(gt[q]) and gt[q][a] != -rs[0] and not (rs[0] == 0 and gt[q][a] == acc):
                    problems.append('listing: state %d reduces by rule %d on %s and nothing competes for that cell, but the table has %s there'
                                    % (q, rs[0], sname.get(a), vlib.decode_cell(gt[q][a], err, acc)))
            if {k: sorted(v) for k, v in la.items()} != {k: sorted(v) for k, v in want_la.items()}:
                ks = [k for k in set(la) | set(want_la) if sorted(la.get(k, [])) != sorted(want_la.get(k, []))]
                problems.append('listing, lookahead sets differ from those of the run at %s: listed %s, computed %s' % (ks[:2], [la.get(k) for k in ks[:2]], [want_la.get(k) for k in ks[:2]]))
            # ---- DOT graph against the table of the same run
            dot = d.get('dot') or ''
            if dot.startswith('PANIC'):
                problems.append('DrawGrammar panics: ' + dot[:200])
            else:
                nodes, edges = parse_dot(dot)
                if sorted(nodes) != list(range(n)):
                    problems.append('graph: nodes %s, the automaton has states 0..%d' % (sorted(nodes)[:12], n - 1))
                md = mdraw.get('g%d' % gi)
                if md is None:
                    ctx.violation('no-failing-input-found', 'grammar %s: the model of DrawGrammar gave no answer' % gname, case, interface='I8')
                    continue
                want_edges = sorted((q, raw_name(sname[a]), to) for (q, a, to) in md['edges'])
                if sorted(edges) != want_edges:
                    miss = [e for e in want_edges if e not in edges][:3]
                    extra = [e for e in edges if e not in want_edges][:3]
                    problems.append('graph: edges differ from the table: missing %s, extra %s' % (miss, extra))
                for q in range(min(n, len(gt))):
                    nd = nodes.get(q)
                    if nd is None:
                        continue
                    items = [item_text_dot(d, r, dt) for (r, dt) in d['lr0'][q]['items']]
                    looks = ['%s: reduce rule at %d' % (raw_name(sname[a]), r) for (a, r) in md['look'].get(q, [])]
                    want_fields = ['<f0> state %d' % q, items] + ([looks] if looks else [])
                    got_fields = split_record(nd['label']) if nd['label'] is not None else None
                    if got_fields != want_fields:
                        problems.append('graph, state %d: the label %r reads as %r; the items and reductions of the table are %r' % (q, nd['label'], got_fields, want_fields))
                    is_acc = md['acc'].get(q, False)
                    if nd['filled'] != is_acc:
                        problems.append('graph, state %d: %s as accepting, the table %s' % (q, 'marked' if nd['filled'] else 'not marked', 'accepts there' if is_acc else 'does not accept there'))
            if any(c < 0 for row in gt for c in row) and any(c == acc for row in gt for c in row):
                ctx.nontrivial.add(gname)
            for pb in problems[:2]:
                ctx.violation('counterexample', 'grammar %s: %s' % (gname, pb), dict(case, observed=pb), interface='I8')
            if ctx.evaluations % 23 == 2:
                ctx.sample(dict(grammar=gname, states=n, listing_head=d['stdout'][:200], dot_head=dot[:200]))
        ctx.extra['grammars'] = len(gs)
        ctx.extra['escape_model'] = escape_compare(ctx, [s['name'] for d in dumps if d.get('ok') for s in d['symbols']])
        # listing and diagram are compared with the automaton, the lookahead sets and the table of the same run; what they are said to
        # describe - the tables the parser is generated from - must be what the proved pipeline makes of the same file (the listing
        # shows lookahead sets, the table is what is left of them after conflict resolution)
        import backend, props
        if not props.had_counterexample(ctx):
            ed = [dict(interface=itf, what='grammar %s: %s' % (nm, what), case=dict(grammar=nm, grammar_text=texts[[g[0] for g in gs].index(nm)], interface=itf, detail=what))
                  for (nm, itf, what) in backend.e2e_diffs([g[0] for g in gs], paths, dumps)]
            props.report_corr(ctx, ed, {'I1', 'I2', 'I3', 'I4', 'I5', 'I5n'}, 'C18')
    finally:
        shutil.rmtree(work, ignore_errors=True)


def escape_compare(ctx, names):
    """utils.EscapeDotGraph (built from /repo) against the Coq model EscapeDot.escape on symbol names of the corpus and on
    random strings rich in record metacharacters; the model also reads the escaped text back (split at unprotected bars)."""
    rnd = random.Random(ctx.seed * 4409 + 3)
    alpha = '\\"<>{}|ab $\'%:-'
    strs = list(dict.fromkeys(names))[:300] + [''.join(rnd.choice(alpha) for _ in range(rnd.randint(0, 12))) for _ in range(300 if ctx.quick else 5000)]
    strs = [x for x in strs if x]
    bindir = vlib.build_impl()
    r = vlib.sh([os.path.join(bindir, 'escape')], input=''.join(x.encode('utf8').hex() + '\n' for x in strs), timeout=300)
    impl = r.stdout.split()
    cmds = ['D e%d %s\n' % (i, x.encode('utf8').hex()) for i, x in enumerate(strs)]
    model = {}
    for ln in vlib.model_eval_chunks(cmds):
        f = ln.split()
        if len(f) >= 3 and f[0] == 'D':
            model[f[1]] = (f[2], f[3] if len(f) > 3 else '')
    unhex = lambda h: bytes.fromhex(h if h and h != '-' else '').decode('utf8', 'replace')
    bad = 0
    for i, x in enumerate(strs):
        ctx.evaluations += 1
        m = model.get('e%d' % i)
        got = impl[i] if i < len(impl) else None
        back = None if m is None else '|'.join(unhex(p) for p in m[1].split(','))
        if m is None or got != m[0] or back != x:
            bad += 1
            if bad <= 2:
                ctx.violation('counterexample' if (m is not None and got != m[0]) else 'no-failing-input-found',
                              'EscapeDotGraph(%r) = %r, the model of the escaping gives %r (read back: %r)' % (x, unhex(got), None if m is None else unhex(m[0]), back),
                              dict(name=x, observed=got, expected=None if m is None else m[0]), interface='I8')
    return dict(strings=len(strs), differences=bad)
