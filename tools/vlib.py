#!/usr/bin/env python3
"""Common machinery of the /verif checks: building from /repo, running the extracted Coq model,
running the implementation harness, known findings, replay files, evidence."""
import fcntl, hashlib, json, os, random, re, shutil, subprocess, sys, time

VERIF = os.path.dirname(os.path.dirname(os.path.abspath(__file__)))
REPO = os.environ.get('VERIF_REPO', '/repo')
WORK = os.environ.get('VERIF_WORK') or os.path.join(VERIF, '.work')
OUTDIR = os.environ.get('VERIF_OUT') or VERIF      # evidence/ and replays/ are written below this directory
COQ = os.path.join(VERIF, 'coq')
NODE22 = None
for cand in ['/root/.nvm/versions/node/v22.22.2/bin/node']:
    if os.path.exists(cand):
        NODE22 = cand

GOENV = dict(os.environ, GOFLAGS='-mod=mod', GOPROXY='off', GOSUMDB='off', GOTOOLCHAIN='local',
             GOCACHE=os.path.join(WORK, 'gocache'))


def log(*a):
    print(*a, file=sys.stderr, flush=True)


def sh(cmd, **kw):
    kw.setdefault('capture_output', True)
    kw.setdefault('text', True)
    return subprocess.run(cmd, **kw)


class Lock:
    def __init__(self, name):
        os.makedirs(WORK, exist_ok=True)
        self.path = os.path.join(WORK, name + '.lock')

    def __enter__(self):
        self.f = open(self.path, 'w')
        fcntl.flock(self.f, fcntl.LOCK_EX)
        return self

    def __exit__(self, *a):
        fcntl.flock(self.f, fcntl.LOCK_UN)
        self.f.close()


# ---------------------------------------------------------------- building from /repo
def repo_hash():
    h = hashlib.sha256()
    for root, dirs, files in os.walk(REPO):
        dirs[:] = sorted(d for d in dirs if d not in ('.git', 'bin', 'out'))
        for f in sorted(files):
            if f.endswith(('.go', '.templ', '.mod', '.sum')):
                p = os.path.join(root, f)
                h.update(p.encode())
                with open(p, 'rb') as fh:
                    h.update(fh.read())
    # the harness sources are part of what is built
    for root, dirs, files in os.walk(os.path.join(VERIF, 'harness')):
        dirs.sort()
        for f in sorted(files):
            p = os.path.join(root, f)
            h.update(p.encode())
            with open(p, 'rb') as fh:
                h.update(fh.read())
    return h.hexdigest()[:16]


_built = {}


def build_impl():
    """Builds the harness (-tags verif) and the yaccgo CLI from REPO's current working tree.
    Returns the directory holding the binaries. Cached by a hash of every source file."""
    hsh = repo_hash()
    if hsh in _built:
        return _built[hsh]
    with Lock('build'):
        bindir = os.path.join(WORK, 'impl-' + hsh)
        if not os.path.exists(os.path.join(bindir, 'OK')):
            # drop builds of other source states (disk is limited)
            for d in os.listdir(WORK) if os.path.isdir(WORK) else []:
                if (d.startswith('impl-') or d.startswith('i6-')) and not d.endswith(hsh):
                    try:
                        old = time.time() - os.path.getmtime(os.path.join(WORK, d)) > 1800
                    except OSError:
                        old = False
                    if old:
                        shutil.rmtree(os.path.join(WORK, d), ignore_errors=True)
            os.makedirs(bindir, exist_ok=True)
            hdir = os.path.join(bindir, 'harness')
            shutil.rmtree(hdir, ignore_errors=True)
            shutil.copytree(os.path.join(VERIF, 'harness'), hdir)
            gm = open(os.path.join(hdir, 'go.mod')).read().replace('=> /repo', '=> ' + REPO)
            open(os.path.join(hdir, 'go.mod'), 'w').write(gm)
            shutil.copy(os.path.join(REPO, 'go.sum'), os.path.join(hdir, 'go.sum'))
            for name in sorted(os.listdir(os.path.join(hdir, 'cmd'))):
                r = sh(['go', 'build', '-tags', 'verif', '-o', os.path.join(bindir, name), './cmd/' + name], cwd=hdir, env=GOENV)
                if r.returncode != 0:
                    raise BuildError('harness %s does not build against %s:\n%s' % (name, REPO, r.stderr[-3000:]))
            r = sh(['go', 'build', '-o', os.path.join(bindir, 'yaccgo'), './yaccgo'], cwd=REPO, env=GOENV)
            if r.returncode != 0:
                raise BuildError('yaccgo CLI does not build:\n' + r.stderr[-3000:])
            open(os.path.join(bindir, 'OK'), 'w').write(hsh)
    _built[hsh] = bindir
    return bindir


class BuildError(Exception):
    pass


# ---------------------------------------------------------------- Coq side
def model_eval_path():
    p = os.path.join(COQ, 'extract', 'model_eval')
    if not os.path.exists(p):
        r = sh(['make', '-C', VERIF, 'setup'], timeout=3000)
        if r.returncode != 0:
            raise BuildError('setup failed: ' + r.stdout[-2000:] + r.stderr[-2000:])
    return p


def _big_stack():
    # the extracted code recurses as deep as its lists are long (no tail calls in Gallina-shaped code)
    import resource
    try:
        resource.setrlimit(resource.RLIMIT_STACK, (resource.RLIM_INFINITY, resource.RLIM_INFINITY))
    except (ValueError, OSError):
        try:
            soft, hard = resource.getrlimit(resource.RLIMIT_STACK)
            resource.setrlimit(resource.RLIMIT_STACK, (hard, hard))
        except (ValueError, OSError):
            pass


def model_eval(text, timeout=600):
    r = sh([model_eval_path()], input=text, timeout=timeout, preexec_fn=_big_stack)
    if r.returncode != 0:
        raise RuntimeError('model_eval failed: ' + r.stderr[-2000:])
    return r.stdout.splitlines()


def model_eval_chunks(chunks, timeout=900, procs=16):
    """chunks: list of self-contained input texts (each starts with its own G command).
    Runs them on up to `procs` model_eval processes in parallel; returns all output lines."""
    import concurrent.futures as cf
    if not chunks:
        return []
    # dynamic scheduling: small groups handed to a pool of workers, so that one slow grammar does not hold back a whole share
    per = max(1, len(chunks) // (procs * 8))
    groups = [''.join(chunks[i:i + per]) for i in range(0, len(chunks), per)]
    with cf.ThreadPoolExecutor(procs) as ex:
        outs = list(ex.map(lambda t: model_eval(t, timeout), groups))
    return [ln for o in outs for ln in o]


def check_proofs(prop_files, thorough=False):
    """Re-checks the property files with coqc (after `make`, a no-op when .vo are fresh) and collects
    every `Print Assumptions` verdict. Returns dict(obligations, discharged, theorems, axioms, ok, log)."""
    with Lock('coq'):
        r = sh(['make', '-C', VERIF, 'coq'], timeout=3000)
    if r.returncode != 0:
        return dict(ok=False, obligations=len(prop_files), discharged=0, theorems=[], axioms=[], log=(r.stdout + r.stderr)[-3000:])
    theorems, axioms, ok, logs = [], [], True, []
    obligations = discharged = 0
    for pf in prop_files:
        path = os.path.join(COQ, 'theories', pf)
        src = open(path).read()
        names = re.findall(r'(?m)^(?:Theorem|Corollary|Lemma)\s+(\w+)', src)
        obligations += len(names)
        with Lock('coq'):
            r = sh(['coqc', '-Q', os.path.join(COQ, 'theories'), 'YG', path], timeout=1800, cwd=COQ)
        out = r.stdout + r.stderr
        if r.returncode != 0:
            ok = False
            logs.append(out[-3000:])
            continue
        # one verdict per Print Assumptions
        verdicts = re.findall(r'(Closed under the global context|Axioms:\n(?:.+\n?)+?)(?=\n\n|\Z|Closed|Axioms:)', out)
        closed = out.count('Closed under the global context')
        ax = re.findall(r'(?m)^Axioms:\n((?:\S.*\n?(?:  .*\n?)*)+)', out)
        for a in ax:
            axioms.append(a.strip())
        theorems += names
        discharged += len(names)
        if closed + len(ax) < len(re.findall(r'Print Assumptions', src)):
            ok = False
            logs.append('missing Print Assumptions output in ' + pf)
    return dict(ok=ok, obligations=obligations, discharged=discharged if ok else 0, theorems=theorems,
                axioms=axioms, log='\n'.join(logs))


def audit_sources():
    """Forbidden-word audit of the Coq development."""
    bad = []
    pat = re.compile(r'\b(Admitted|admit|Axiom|Parameter|Conjecture|Unset Guard|bypass_check|type-in-type|Admit Obligations)\b')
    for root, _, files in os.walk(os.path.join(COQ, 'theories')):
        for f in files:
            if f.endswith('.v'):
                src = open(os.path.join(root, f)).read()
                src = re.sub(r'\(\*.*?\*\)', '', src, flags=re.S)
                for m in pat.finditer(src):
                    bad.append('%s: %s' % (f, m.group(0)))
    return bad


# ---------------------------------------------------------------- implementation side
def run_dump(paths, flags=(), timeout=600):
    """Runs the in-process dump tool on grammar files; returns list of dicts (same order)."""
    bindir = build_impl()
    outs = {}
    todo = list(paths)
    res = []
    while todo:
        r = sh([os.path.join(bindir, 'dump')] + list(flags), input='\n'.join(todo) + '\n', timeout=timeout)
        got = [json.loads(l) for l in r.stdout.splitlines() if l.startswith('{')]
        res += got
        if r.returncode == 3 or len(got) < len(todo):
            # the dump process gave up after a hang or crash on file number len(got); continue after it
            if r.returncode != 3 and len(got) < len(todo):
                res.append(dict(id=todo[len(got)], ok=False, crash=r.stderr[-2000:], stdout=''))
                got.append(None)
            todo = todo[len(got):]
        else:
            todo = []
    return res


def run_cli(args, timeout=20, cwd=None, stdin=None):
    bindir = build_impl()
    t0 = time.time()
    try:
        r = sh([os.path.join(bindir, 'yaccgo')] + args, timeout=timeout, cwd=cwd, input=stdin)
        return dict(rc=r.returncode, out=r.stdout, err=r.stderr, timeout=False, wall=time.time() - t0)
    except subprocess.TimeoutExpired as e:
        return dict(rc=None, out=(e.stdout or b'').decode('utf8', 'replace') if isinstance(e.stdout, bytes) else (e.stdout or ''),
                    err='', timeout=True, wall=time.time() - t0)


# ---------------------------------------------------------------- model input from a dumped grammar object
ASSOC = {0: 0, 1: 1, 2: 2}


def model_grammar_text(gid, d, acts=None):
    """Text of the `G` (and `A`) command for model_eval from the implementation's grammar object."""
    syms = d['symbols']
    out = ['G %s %d %d %d' % (gid, len(syms), d['nterm'], len(d['rules']))]
    out.append(' '.join('%d %d' % (s['prec'], s['assoc']) for s in syms))
    for r in d['rules']:
        if r['precsym'] >= 0:
            ps = syms[r['precsym']]
            p, a = ps['prec'], ps['assoc']
        else:
            p, a = -1, 2
        out.append('%d %d %d %d %s' % (r['lhs'], p, a, len(r['rhs']), ' '.join(map(str, r['rhs']))))
    if acts is not None:
        out.append('A %d %s' % (len(acts), ' '.join('%d %d %s' % (c, len(co), ' '.join(map(str, co))) for (c, co) in acts)))
    return '\n'.join(out) + '\n'


def decode_cell(v, err, acc):
    if v == err:
        return 'e'
    if v == acc:
        return 'a'
    if v > 0:
        return 's%d' % v
    return 'r%d' % (-v)


WARN_RE = re.compile(r'warning: has the conflic (\d+), sym (\d+), conflict Type (\w+), (\w+)\s+use default resolve')
KIND = {'shift': 0, 'reduce': 1, 'error': 2}


def impl_warnings(stdout):
    return sorted((int(q), int(a), KIND[k1], KIND[k2]) for (q, a, k1, k2) in WARN_RE.findall(stdout))


def impl_packed_lookup(d, s, a):
    """The generated Action() re-implemented over the exported arrays (for the direct C05 oracle)."""
    off, chk, act = d['off'], d['chk'], d['act']
    if off[s] + a < 0:
        return d['errcode']
    if off[s] + a >= len(chk) or chk[off[s] + a] != s:
        if a > d['nterm']:
            return d['gdef'][a - d['nterm'] - 1]
        return d['adef'][s]
    return act[off[s] + a]


def parse_model_tables(lines, gid):
    """Collects the lines of one grammar from model_eval's T output."""
    m = dict(lr0=[], la={}, dense=[], warn=[], plook=[], error=None, nullable=[], need=None)
    pre = gid + ' '
    for ln in lines:
        if not ln.startswith(pre):
            continue
        f = ln[len(pre):].split()
        k = f[0]
        if k == 'lr0':
            i = f.index('items'); j = f.index('gotos')
            items = [tuple(map(int, x.split('.'))) for x in f[i + 1:j]]
            gotos = [tuple(map(int, x.split('>'))) for x in f[j + 1:]]
            m['lr0'].append((items, gotos))
        elif k == 'la':
            m['la'][(int(f[1]), int(f[2]))] = [int(x) for x in f[4:]]
        elif k == 'dense':
            m['dense'].append(f[3:])
        elif k == 'plook':
            m['plook'].append(f[3:])
        elif k == 'warn':
            m['warn'].append(tuple(map(int, f[1:5])))
        elif k == 'error':
            m['error'] = f[1:]
        elif k == 'nullable':
            m['nullable'] = [int(x) for x in f[1:]]
        elif k == 'needpacked':
            m['need'] = f[1] == '1'
        elif k == 'wfcheck':
            m['wf'] = f[1] == '1'
        elif k == 'adef':
            m['adef'] = f[1:]
        elif k == 'gdef':
            m['gdef'] = f[1:]
    m['warn'].sort()
    return m


# ---------------------------------------------------------------- findings, replays, evidence
def load_known():
    p = os.path.join(VERIF, 'known_findings.json')
    if os.path.exists(p):
        return json.load(open(p))
    return []


def match_known(prop, case):
    """A failing case is known only if every key of an entry's `match` agrees with it."""
    for e in load_known():
        if e.get('property') != prop or e.get('status') != 'known':
            continue
        m = e.get('match', {})
        ok = True
        for k, v in m.items():
            cv = case.get(k)
            if k.endswith('_regex'):
                cv = case.get(k[:-6])
                if cv is None or not re.search(v, str(cv)):
                    ok = False
            elif cv != v:
                ok = False
        if ok and m:
            return e
    return None


def write_replay(prop, case):
    d = os.path.join(OUTDIR, 'replays', prop)
    os.makedirs(d, exist_ok=True)
    blob = json.dumps(case, sort_keys=True, indent=1)
    name = hashlib.sha256(blob.encode()).hexdigest()[:12] + '.json'
    p = os.path.join(d, name)
    open(p, 'w').write(blob)
    return p


def write_evidence(prop, ev):
    d = os.path.join(OUTDIR, 'evidence')
    os.makedirs(d, exist_ok=True)
    open(os.path.join(d, prop + '.json'), 'w').write(json.dumps(ev, indent=1, sort_keys=True))


def sha(s):
    return hashlib.sha256(s.encode() if isinstance(s, str) else s).hexdigest()[:12]
