#!/usr/bin/env python3
"""Edits the texts of the property registry at the end of tools/props.py: python3 tools/setlevel.py <body.py>, where the body
calls setf('Cxx', 'level_text'|'level_note'|'technique'|'rule', "new text") or appendf('Cxx', field, " more text").
Run tools/mkmanifest.py afterwards."""
import ast, os, re, sys
p = os.path.join(os.path.dirname(os.path.abspath(__file__)), 'props.py')
s = open(p).read()


def _find(pid, field):
    i = s.index("reg('%s'," % pid)
    k = s.find("\nreg(", i + 1)
    j = k if k >= 0 else s.index("\nNOT_CLAIMED", i)
    blk = s[i:j]
    if field == 'rule':
        m = re.search(r"""\['Prop_\w+\.v'\], (?:I6RULE \+ |BERULE \+ )?('(?:[^'\\]|\\.)*'|"(?:[^"\\]|\\.)*")""", blk)
    else:
        m = re.search(r"""    %s=(?:MODEL_NOTE \+ )?('(?:[^'\\]|\\.)*'|"(?:[^"\\]|\\.)*")""" % field, blk)
    assert m, (pid, field)
    return i, j, blk, m


def setf(pid, field, new):
    global s
    i, j, blk, m = _find(pid, field)
    s = s[:i] + blk[:m.start(1)] + repr(new) + blk[m.end(1):] + s[j:]


def appendf(pid, field, extra):
    i, j, blk, m = _find(pid, field)
    setf(pid, field, ast.literal_eval(m.group(1)) + extra)


exec(open(sys.argv[1]).read())
open(p, 'w').write(s)
