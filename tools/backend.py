#!/usr/bin/env python3
"""Back-end correspondence (interfaces I2-I5): the implementation's in-process results for a set of
grammar files against the extracted Coq model run on the implementation's own grammar object."""
import os, sys, json
sys.path.insert(0, os.path.dirname(os.path.abspath(__file__)))
import vlib, gram


def write_corpus(dirpath, grammars, render=gram.render_plain):
    """grammars: list of (name, abstract grammar). Returns list of (name, path, g)."""
    os.makedirs(dirpath, exist_ok=True)
    out = []
    for name, g in grammars:
        p = os.path.join(dirpath, name + '.y')
        open(p, 'w').write(render(g))
        out.append((name, p, g))
    return out


def impl_views(d):
    """Projections of one dump that the properties talk about."""
    err, acc = d['errcode'], d['acccode']
    v = {}
    v['lr0'] = [([tuple(x) for x in s['items']], [tuple(x) for x in s['gotos']]) for s in d['lr0']]
    la = {}
    for idx, t in enumerate(d['trans']):
        if t[2] == 1:
            la[(t[0], t[1])] = sorted(set(d['la'].get(str(idx), [])))
    v['la'] = la
    v['dense'] = [[vlib.decode_cell(x, err, acc) for x in row] for row in d['gtable']]
    v['warn'] = vlib.impl_warnings(d['stdout'])
    v['need'] = d['needpacked']
    if d['needpacked']:
        n, m = len(d['gtable']), len(d['symbols'])
        v['plook'] = [[vlib.decode_cell(vlib.impl_packed_lookup(d, s, a), err, acc) for a in range(m)] for s in range(n)]
    else:
        v['plook'] = None
    v['nullable'] = sorted(s['id'] for s in d['symbols'] if s['eps'])
    return v


def renumber(impl_lr0, model_lr0):
    """Bijection impl state -> model state through the item sets (None if there is none)."""
    idx = {}
    for j, (items, _) in enumerate(model_lr0):
        idx[tuple(sorted(items))] = j
    mp = {}
    for i, (items, _) in enumerate(impl_lr0):
        j = idx.get(tuple(sorted(items)))
        if j is None or j in mp.values():
            return None
        mp[i] = j
    if len(mp) != len(model_lr0) or mp.get(0) != 0:
        return None
    return mp


def rn_action(c, mp):
    return 's%d' % mp[int(c[1:])] if c[0] == 's' and int(c[1:]) in mp else c


def compare(d, m):
    """Returns list of (interface, description) differences between implementation views and model."""
    diffs = []
    v = impl_views(d)
    if m['error'] is not None:
        diffs.append(('I1', 'model rejects the grammar (%s) but the implementation built it' % ' '.join(m['error'])))
        return diffs, v, None
    if m.get('wf') is False:
        diffs.append(('I1', 'the grammar object does not meet the well-formedness check under which the back-end theorems are stated (WfGrammar.wf_gi)'))
    if v['nullable'] != m['nullable']:
        diffs.append(('I2', 'nullable symbols: impl %s model %s' % (v['nullable'], m['nullable'])))
    mp = renumber(v['lr0'], m['lr0'])
    if mp is None:
        diffs.append(('I2', 'LR(0) item sets differ (as a set of sets): impl %d states, model %d states' % (len(v['lr0']), len(m['lr0']))))
        return diffs, v, None
    exact = all(mp[i] == i for i in mp)
    inv = {j: i for i, j in mp.items()}
    for i, (items, gotos) in enumerate(v['lr0']):
        mg = dict(m['lr0'][mp[i]][1])
        ig = {x: mp[q] for (x, q) in gotos}
        if ig != mg:
            diffs.append(('I2', 'goto edges of state %d: impl %s model %s' % (i, sorted(ig.items()), sorted(mg.items()))))
    for (q, r), las in sorted(v['la'].items()):
        ml = m['la'].get((mp[q], r))
        if ml is None:
            diffs.append(('I3', 'reduction (state %d, rule %d) unknown to the model' % (q, r)))
        elif ml != las:
            diffs.append(('I3', 'lookahead of (state %d, rule %d): impl %s model %s' % (q, r, las, ml)))
    if len(v['la']) != len(m['la']):
        diffs.append(('I3', 'number of reductions: impl %d model %d' % (len(v['la']), len(m['la']))))
    for q, row in enumerate(v['dense']):
        mrow = m['dense'][mp[q]]
        irow = [rn_action(c, mp) for c in row]
        if irow != mrow:
            cols = [a for a in range(len(irow)) if a >= len(mrow) or irow[a] != mrow[a]]
            diffs.append(('I4', 'dense row %d differs at symbols %s: impl %s model %s' % (q, cols, [irow[a] for a in cols], [mrow[a] if a < len(mrow) else None for a in cols])))
    iw = sorted((mp[q], a, k1, k2) for (q, a, k1, k2) in v['warn'])
    if iw != m['warn']:
        diffs.append(('I4w', 'warnings (state, symbol, kind, kind): impl %s model %s' % (iw, m['warn'])))
    if v['plook'] is not None:
        # I5: what the packed arrays answer, against the implementation's own dense table (direct oracle)
        for q, row in enumerate(v['plook']):
            if row != v['dense'][q]:
                cols = [a for a in range(len(row)) if row[a] != v['dense'][q][a]]
                diffs.append(('I5', 'packed lookup of state %d differs from GTable at symbols %s: packed %s dense %s' % (q, cols, [row[a] for a in cols], [v['dense'][q][a] for a in cols])))
    if exact and v['need'] != m['need']:
        diffs.append(('I5n', 'NeedPacked: impl %s model %s' % (v['need'], m['need'])))
    return diffs, v, dict(exact=exact)


def run(entries, acts=None):
    """entries: list of (name, path, g). Returns dict name -> (dump, model tables, diffs)."""
    dumps = vlib.run_dump([p for (_, p, _) in entries])
    text = []
    ids = {}
    for k, ((name, p, g), d) in enumerate(zip(entries, dumps)):
        if d.get('ok'):
            gid = 'g%d' % k
            ids[name] = gid
            text.append(vlib.model_grammar_text(gid, d) + 'T\n')
    # one self-contained chunk per grammar, spread over the cores (largest first)
    text.sort(key=len, reverse=True)
    lines = vlib.model_eval_chunks(text) if text else []
    bygid = {}
    for ln in lines:
        bygid.setdefault(ln.split(' ', 1)[0], []).append(ln)
    # end to end: the model run from the bytes of the same file (lexer, parser, visitor, grammar object, tables)
    etext = []
    for k, ((name, p, g), d) in enumerate(zip(entries, dumps)):
        if d.get('ok'):
            etext.append('E e%d %s\n' % (k, open(p, 'rb').read().hex()))
    elines = vlib.model_eval_chunks(etext) if etext else []
    byeid = {}
    for ln in elines:
        byeid.setdefault(ln.split(' ', 1)[0], []).append(ln)
    res = {}
    for k, ((name, p, g), d) in enumerate(zip(entries, dumps)):
        if not d.get('ok'):
            res[name] = (d, None, None, None)
            continue
        m = vlib.parse_model_tables(bygid.get(ids[name], []), ids[name])
        diffs, v, info = compare(d, m)
        el = byeid.get('e%d' % k, [])
        verdict = next((l.split()[2] for l in el if l.split()[1] == 'e2e'), 'missing')
        if verdict != 'ok':
            diffs.append(('I1', 'end to end: the model built from the same text says %s, the implementation builds the grammar' % verdict))
        else:
            me = vlib.parse_model_tables(el, 'e%d' % k)
            ediffs, _, _ = compare(d, me)
            have = set(diffs)
            for (itf, what) in ediffs:
                if (itf, what) not in have:
                    diffs.append((itf, 'end to end (model from the text of the file): ' + what))
        res[name] = (d, m, diffs, v)
    return res


def e2e_diffs(names, paths, dumps):
    """The model run from the bytes of each file against the implementation's dump: list of (name, interface, what)."""
    etext = []
    for k, d in enumerate(dumps):
        if d.get('ok'):
            etext.append('E e%d %s\n' % (k, open(paths[k], 'rb').read().hex()))
    elines = vlib.model_eval_chunks(etext) if etext else []
    byeid = {}
    for ln in elines:
        byeid.setdefault(ln.split(' ', 1)[0], []).append(ln)
    out = []
    for k, d in enumerate(dumps):
        if not d.get('ok'):
            continue
        el = byeid.get('e%d' % k, [])
        verdict = next((l.split()[2] for l in el if l.split()[1] == 'e2e'), 'missing')
        if verdict != 'ok':
            out.append((names[k], 'I1', 'end to end: the model built from the same text says %s, the implementation builds the grammar' % verdict))
            continue
        ediffs, _, _ = compare(d, vlib.parse_model_tables(el, 'e%d' % k))
        for (itf, what) in ediffs:
            out.append((names[k], itf, 'end to end (model from the text of the file): ' + what))
    return out


if __name__ == '__main__':
    import random, time
    seed = int(sys.argv[1]) if len(sys.argv) > 1 else 1
    n = int(sys.argv[2]) if len(sys.argv) > 2 else 100
    rnd = random.Random(seed)
    gs = [('c_' + k, g) for k, g in gram.curated().items()]
    for i in range(n):
        gs.append(('r%d' % i, gram.random_usable(rnd, p_prec=0.4)))
    work = os.path.join(vlib.WORK, 'be-test')
    ents = write_corpus(work, gs)
    t0 = time.time()
    res = run(ents)
    bad = 0
    for name, (d, m, diffs, v) in res.items():
        if m is None:
            print(name, 'IMPL FAIL', d.get('err'), d.get('panic'), d.get('timeout'))
            bad += 1
        elif diffs:
            bad += 1
            print(name, diffs[:3])
    print('grammars', len(res), 'bad', bad, 'time %.1f' % (time.time() - t0))
