#!/usr/bin/env python3
"""C15, the concurrent half: parsers generated with -o on DIFFERENT contexts, each context used by its own goroutine,
all of them running at the same time under Go's race detector.  Actions and lexer are pure functions of what the parser
hands them, so every memory access the detector sees is the generated code's.  Every parse must give what the same parse
gives alone on a fresh context, and the detector must stay silent."""
import os, random, re, shutil, subprocess, sys
sys.path.insert(0, os.path.dirname(os.path.abspath(__file__)))
import vlib, gram, genrun

EPI = '''
func GetToken(input string, valTy *ValType, pos *int) int {
	if *pos >= len(input) { return -1 }
	zzc := int(input[*pos]) - 'a'
	*pos++
	valTy.zzseq++
	zzx := valTy.zzseq*31 + zzc + 1
	_ = zzx
	switch zzc {
%(cases)s
	}
	return 7777
}
// a reduction counter for the sequential pass only (atomic, so that it is no shared write of its own in the concurrent pass):
// inputs on which an ambiguous grammar keeps reducing for ever are found there and left out of the concurrent pass
var zzSteps int64
var zzLimitOn int32
func ResetSteps() { atomic.StoreInt64(&zzSteps, 0) }
func SetLimit(on bool) { if on { atomic.StoreInt32(&zzLimitOn, 1) } else { atomic.StoreInt32(&zzLimitOn, 0) } }
func zzStep() { if atomic.AddInt64(&zzSteps, 1) > 400 && atomic.LoadInt32(&zzLimitOn) == 1 { panic("STEPLIMIT") } }
func parseOn(c *Context, input string) (res string) {
	defer func() { if r := recover(); r != nil { res = fmt.Sprint("E|", r) } }()
	c.ParserInit()
	v := c.Parser(input)
	if v == nil { return "N" }
	return fmt.Sprint("A|", v.%(starttag)s)
}
// Worker: a context of its own and the function that parses on it
func Worker() func(string) string {
	c := MakeParserContext()
	return func(in string) string { return parseOn(c, in) }
}
var _ = strings.Split
'''

MAIN = '''package main
import (
	"bufio"
	"fmt"
	"os"
	"strings"
	"sync"
%(imports)s
)
type unit struct {
	name string
	worker func() func(string) string
	reset func()
	limit func(bool)
	inputs []string
}
var units = []unit{
%(units)s
}
func main() {
	want := make([][]string, len(units))
	if len(os.Args) > 2 && os.Args[1] == "conc" {
		// a fresh process whose very first parses run concurrently (nothing the parsers set up lazily has been set up by an
		// earlier, sequential parse); what every parse gives alone comes from the file written by the other mode
		idx := map[string]int{}
		for i, u := range units { idx[u.name] = i; units[i].inputs = nil }
		f, _ := os.Open(os.Args[2])
		sc := bufio.NewScanner(f)
		sc.Buffer(make([]byte, 1<<20), 1<<20)
		for sc.Scan() {
			p := strings.SplitN(sc.Text(), "\t", 4)
			if len(p) == 4 && p[0] == "ALONE" {
				i := idx[p[1]]
				units[i].inputs = append(units[i].inputs, p[2])
				want[i] = append(want[i], p[3])
			}
		}
		f.Close()
		concurrent(want)
		return
	}
	// what every parse gives alone, on a fresh context, with nothing else running
	for i := range units {
		u := &units[i]
		u.limit(true)
		keep := []string{}
		for _, in := range u.inputs {
			u.reset()
			r := u.worker()(in)
			if len(r) >= 11 && r[:11] == "E|STEPLIMIT" { continue } // the grammar loops on this input: not a job for the concurrent pass
			keep = append(keep, in)
			want[i] = append(want[i], r)
		}
		u.inputs = keep
		u.limit(false)
	}
	for i, u := range units { for k, in := range u.inputs { fmt.Printf("ALONE\\t%%s\\t%%s\\t%%s\\n", u.name, in, want[i][k]) } }
	if len(os.Args) > 1 && os.Args[1] == "alone" { return }
	concurrent(want)
}
func concurrent(want [][]string) {
	var mu sync.Mutex
	bad := 0
	var wg sync.WaitGroup
	start := make(chan struct{})
	for i, u := range units {
		for gid := 0; gid < %(goroutines)d; gid++ {
			wg.Add(1)
			go func(i int, u unit, gid int) {
				defer wg.Done()
				parse := u.worker() // one context per goroutine, re-initialised before every parse
				<-start
				for round := 0; round < %(rounds)d; round++ {
					for k := range u.inputs {
						if len(u.inputs) == 0 { break }
						j := (k*7 + gid*3 + round) %% len(u.inputs)
						got := parse(u.inputs[j])
						if got != want[i][j] {
							mu.Lock()
							if bad < 20 { fmt.Printf("MISMATCH\\t%%s\\t%%s\\t%%s\\t%%s\\n", u.name, u.inputs[j], got, want[i][j]) }
							bad++
							mu.Unlock()
						}
					}
				}
			}(i, u, gid)
		}
	}
	close(start)
	wg.Wait()
	fmt.Printf("DONE\\t%%d\\n", bad)
	if bad > 0 { os.Exit(1) }
}
'''


def pure_action(idx, r):
    expr = ' + '.join(['%d*$%d' % (r['coef'][j], j + 1) for j in range(len(r['rhs'])) if r['coef'][j] != 0] + [str(r['c'])])
    return '{ zzStep(); $$ = (%s) %% %d }' % (expr, gram.MOD)


def y_text(g, pkg):
    cases = ''.join('\tcase %d:\n\t\tvalTy.%s = zzx\n\t\treturn %s\n' % (i, t['tag'], genrun.tok_expr(g, i, 'go')) for i, t in enumerate(g['terms']))
    head = '%{\npackage ' + pkg + '\nimport "fmt"\nimport "strings"\nimport "sync/atomic"\n%}\n%union {\n v0 int\n v1 int\n v2 int\n zzseq int\n}\n'
    return head + genrun.decl_block(g, 'go') + '%%\n' + gram.render_rules(g, pure_action) + '%%\n' + EPI % dict(cases=cases, starttag=g['nonterms'][g['start']]['tag'])


def run(ctx, ngram=None, goroutines=6, rounds=None):
    rnd = random.Random(ctx.seed * 31337 + 5)
    ngram = ngram or (4 if ctx.quick else 16)
    rounds = rounds or (30 if ctx.quick else 300)
    cur = gram.curated()
    gs = [('c_expr', genrun.fix_tags(cur['expr'])), ('c_nullable_chain', genrun.fix_tags(cur['nullable_chain']))]
    while len(gs) < ngram:
        g = gram.operator_grammar(rnd) if len(gs) % 2 else gram.random_usable(rnd, nT=rnd.randint(2, 3), nN=rnd.randint(1, 3))
        gs.append(('r%d' % len(gs), genrun.fix_tags(g)))
    bindir = vlib.build_impl()
    work = os.path.join(vlib.WORK, 'race-%d' % os.getpid())
    shutil.rmtree(work, ignore_errors=True)
    os.makedirs(work)
    try:
        open(os.path.join(work, 'go.mod'), 'w').write('module probe\ngo 1.18\n')
        units, imports, texts = [], [], {}
        for gi, (gname, g) in enumerate(gs):
            nT = len(g['terms'])
            sents = []
            for _ in range(12):
                s = gram.random_sentence(rnd, g)
                if s is not None and len(s) <= 24:
                    sents.append(genrun.enc(s))
            ins = [genrun.enc(s) for s in gram.all_strings(nT, 2)]
            inputs = list(dict.fromkeys(sents + ins[:12] + ['z']))[:24]
            for (vn, flags) in (('op', ['-o']), ('ou', ['-o', '-u'])):
                pkg = 'p%d%s' % (gi, vn)
                os.makedirs(os.path.join(work, pkg))
                y = os.path.join(work, pkg, 'g.y')
                t = y_text(g, pkg)
                open(y, 'w').write(t)
                texts[pkg] = t
                r = subprocess.run([os.path.join(bindir, 'yaccgo'), 'generate', 'go'] + flags + [y, os.path.join(work, pkg, 'p.go')], capture_output=True, text=True, timeout=60)
                if r.returncode != 0:
                    shutil.rmtree(os.path.join(work, pkg))
                    continue
                imports.append('\t"probe/%s"\n' % pkg)
                units.append('\t{"%s", %s.Worker, %s.ResetSteps, %s.SetLimit, []string{%s}},\n' % (pkg, pkg, pkg, pkg, ', '.join('"%s"' % x for x in inputs)))
        open(os.path.join(work, 'main.go'), 'w').write(MAIN % dict(imports=''.join(imports), units=''.join(units), goroutines=goroutines, rounds=rounds))
        r = subprocess.run(['go', 'build', '-race', '-o', 'bin', '.'], cwd=work, capture_output=True, text=True, env=vlib.GOENV, timeout=1200)
        if r.returncode != 0:
            ctx.violation('no-failing-input-found', 'the concurrent harness does not build: %s' % r.stderr[-600:], {}, interface='I6')
            return dict(built=False)
        env = dict(os.environ, GORACE='halt_on_error=0 history_size=2')
        r = subprocess.run([os.path.join(work, 'bin')], capture_output=True, text=True, timeout=1800, env=env)
        # fresh processes that start with the concurrent phase (no sequential parse before it)
        open(os.path.join(work, 'alone.txt'), 'w').write(''.join(l + '\n' for l in r.stdout.splitlines() if l.startswith('ALONE')))
        cold = 0
        for _ in range(3 if ctx.quick else 12):
            r2 = subprocess.run([os.path.join(work, 'bin'), 'conc', os.path.join(work, 'alone.txt')], capture_output=True, text=True, timeout=1800, env=env)
            cold += 1
            r.stdout += ''.join(l + '\n' for l in r2.stdout.splitlines() if l.startswith('MISMATCH'))
            r.stderr += r2.stderr
            if 'DONE' not in r2.stdout:
                r.stdout = r.stdout.replace('DONE', 'INCOMPLETE')
        alone = {}
        nparse = 0
        for ln in r.stdout.splitlines():
            f = ln.split('\t')
            if f[0] == 'ALONE':
                alone[(f[1], f[2])] = f[3]
                if f[3].startswith('A'):
                    ctx.nontrivial.add(('conc', f[1], f[2]))
            elif f[0] == 'MISMATCH':
                ctx.violation('counterexample', 'parser %s: %d goroutines, one context each, parsing at the same time: the parse of %r gives %s, alone on a fresh context it gives %s' % (f[1], goroutines, f[2], f[3], f[4]),
                              dict(grammar=f[1], grammar_text=texts.get(f[1]), grammar_sha=vlib.sha(texts.get(f[1], '')), input=f[2], mode='concurrent', observed=f[3], expected=f[4]), interface='I6')
        nparse = len(alone) * goroutines * rounds
        ctx.evaluations += nparse
        races = r.stderr.count('WARNING: DATA RACE')
        if races:
            m = re.search(r'WARNING: DATA RACE\n(.*?)\n==================', r.stderr, re.S)
            where = re.findall(r'probe/(p\d+o\w)\.', r.stderr)
            pkg = where[0] if where else None
            ctx.violation('counterexample', 'the race detector reports %d data race(s) between parsers that use different contexts (first in %s): %s' % (races, pkg, (m.group(1) if m else r.stderr)[:900]),
                          dict(grammar=pkg, grammar_text=texts.get(pkg), grammar_sha=vlib.sha(texts.get(pkg, '')), mode='concurrent', observed=(m.group(1) if m else r.stderr)[:3000], expected='no data race'), interface='I6')
        if 'DONE' not in r.stdout:
            ctx.violation('no-failing-input-found', 'the concurrent harness did not finish: %s' % (r.stderr[-600:]), {}, interface='I6')
        return dict(parsers=len(units), cold_start_processes=cold, goroutines_per_parser=goroutines, rounds=rounds, parses_under_race_detector=nparse, data_races=races, inputs=len(alone))
    finally:
        shutil.rmtree(work, ignore_errors=True)


if __name__ == '__main__':
    class Ctx:
        seed = 1; quick = True; evaluations = 0
        nontrivial = set()
        def violation(self, *a, **k): print('VIOLATION', a[:2])
    c = Ctx()
    print(run(c))
