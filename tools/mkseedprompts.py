#!/usr/bin/env python3
"""Writes the prompts for a wave of seeded-change sub-agents: python3 tools/mkseedprompts.py <root dir, e.g. /tmp/mut7>.
One scratch worktree of /repo and one output directory per property under the root; each agent gets only the property's
text and the ideas already taken (from seeded/*/meta.json).  Nothing here is ever committed in /repo."""
import glob, json, os, subprocess, sys
VERIF = os.path.dirname(os.path.dirname(os.path.abspath(__file__)))
TMPL = 'You are helping to test a verification framework by mutation testing. You work on a scratch git worktree of the Go project acekingke/yaccgo (a small LALR(1) parser generator: it reads yacc grammars and emits table-driven parsers in Go or TypeScript; CLI in ./yaccgo: `yaccgo generate go [-u] [-o] in.y out.go`, `yaccgo generate typescript in.y out.ts`, `yaccgo debug in.y`; see README.md and examples/).\n\nYour worktree: @ROOT@/@ID@        (work ONLY here and in your output directory)\nYour output directory: @ROOT@/@ID@_out\nDo NOT read or modify /repo, /verif, or any other directory under @ROOT@. Do not commit anything.\n\nThe property under test (this is all you are told about what is being verified):\n\n@PROP@\n\nTASK. Make ONE small, realistic change to yaccgo\'s non-test sources (.go / .templ files in the worktree) that BREAKS this property, while\n (a) the project still compiles, and\n (b) the existing test suite still passes unchanged:\n     cd @ROOT@/@ID@ && GOFLAGS=-mod=mod GOPROXY=off GOSUMDB=off GOTOOLCHAIN=local go test -mod=mod -vet=off -count=1 ./...\nThe change must look like a plausible bug a maintainer could introduce (off-by-one, dropped or weakened condition, wrong variable, swapped order of two statements, an "optimisation" that is wrong in a corner case, a refactoring that loses a case) - not sabotage - and it must need something SPECIFIC to manifest: an unusual input, a particular grammar shape, a multi-step sequence of operations, a particular point of failure, or two cooperating sites that each look fine alone. It must NOT break on ordinary use at once (e.g. the repo\'s examples/*.y should mostly still behave the same). Prefer subtle over blatant. Do not touch *_test.go files, and do not touch files containing `//go:build verif`.\n\nDELIVERABLES in @ROOT@/@ID@_out:\n 1. patch.diff  - `git diff` of your change against HEAD (must apply with `git apply` on a clean checkout of HEAD).\n 2. demo/run.sh - a self-contained demonstration: `bash demo/run.sh <path-to-a-yaccgo-source-tree>` builds what it needs from that tree into a fresh temporary directory (mktemp -d; remove it at the end), exercises the property on a concrete input, and exits 0 if the property holds there and non-zero (printing what went wrong) if it is violated. Put any grammar files / Go or TS driver programs it needs beside it in demo/. It must exit 0 on the unmodified tree and non-zero on the tree with your patch.\n 3. meta.json   - {"property": "@ID@", "summary": "...what the change does...", "files_changed": [...], "needs_to_manifest": "...what specific input/sequence/shape is needed...", "how_demonstrated": "...", "commands_run": [...], "tests_pass_with_change": true/false, "demo_unmodified_exit": 0, "demo_modified_exit": N}\n\nVerify all of it yourself before finishing: the tests pass with the change, the demo exits 0 without the change and non-zero with it. NEVER use `git stash` (the stash is shared between worktrees of this repository and other engineers are working in sibling worktrees): to get an unmodified tree use `git -C @ROOT@/@ID@ archive HEAD | tar -x -C <fresh temp dir>`. Every command your demo runs (yaccgo, compilers, generated parsers) must run under `timeout` and with its output capped (e.g. `| head -c 200000`): a change that makes something loop must make the demo fail, not hang. Leave the worktree with your change applied (uncommitted).\n\nEnvironment: sealed sandbox, no network. Set per shell call: export GOFLAGS=-mod=mod GOPROXY=off GOSUMDB=off GOTOOLCHAIN=local. Go is 1.23. To run generated TypeScript use /root/.nvm/versions/node/v22.22.2/bin/node --experimental-strip-types --no-warnings file.ts (no tsc available). A generated Go parser needs a prologue `%{ package main \\n import "fmt" %}`, a %union, and an epilogue defining `func GetToken(input string, valTy *ValType, pos *int) int` (see examples/); parser entry points are ParserInit()/Parser(input) (default) or MakeParserContext()/ctx.Parser(input) (with -o). Keep temp files under your output directory or mktemp dirs and clean up large build output.\n\nIn your final answer give a 5-line summary: what you changed, why it passes the tests, what is needed to trigger it, and the demo\'s exit codes on both trees.'


def main(root):
    os.makedirs(root, exist_ok=True)
    prev = {}
    for d in sorted(glob.glob(os.path.join(VERIF, 'seeded', '*', 'meta.json'))):
        m = json.load(open(d))
        prev.setdefault(m['property'], []).append((m.get('files_changed'), m.get('summary')))
    for ln in open(os.path.join(VERIF, 'properties.jsonl')):
        p = json.loads(ln)
        pid = p['id']
        wt = os.path.join(root, pid)
        subprocess.run(['git', '-C', '/repo', 'worktree', 'remove', '--force', wt], capture_output=True)
        subprocess.run(['git', '-C', '/repo', 'worktree', 'add', '-q', '--detach', wt, 'HEAD'], check=True)
        os.makedirs(wt + '_out', exist_ok=True)
        prop = '%s\n\n%s\n\nScope: %s' % (p['title'], p['statement'], p['quantifier']['text'])
        t = TMPL.replace('@ROOT@', root).replace('@ID@', pid).replace('@PROP@', prop)
        extra = ('\n\nALREADY TAKEN by other engineers (do something clearly different: another mechanism and another file or stage of the pipeline; prefer changes '
                 'that need TWO things to coincide - e.g. a particular declaration style AND a particular rule shape, or a particular table layout AND a particular '
                 'input - or that only show after a sequence of operations; the property can be broken from many places: the grammar-file lexer and parser, the '
                 'symbol/rule tables, the automaton construction, the lookahead computation, conflict resolution, table splitting/packing, the code templates for '
                 'each target language and mode, the trace and debug printers, the command line driver):\n' +
                 ''.join(' - files %s: %s\n' % (f, (s or '')[:260].replace('\n', ' ')) for f, s in prev.get(pid, [])))
        open(os.path.join(root, pid + '_prompt.txt'), 'w').write(t + extra)
    print('prompts and worktrees under', root)


if __name__ == '__main__':
    main(sys.argv[1])
