#!/usr/bin/env python3
"""Abstract grammars, generators and renderings used by the correspondence checks.

A grammar is a dict
  terms    : list of dict(name, lit (1-char string or None), tag, num (explicit code or None), declared (bool))
  nonterms : list of dict(name, tag)
  precs    : list of (kind in left/right/nonassoc/precedence, [term index ...])
  rules    : list of dict(lhs (nonterm index), rhs [('t', i) | ('n', j)], prec (term index or None), c, coef [...])
  start    : nonterm index
"""
import itertools, random

TAGS = ['v0', 'v1', 'v2']
MOD = 1000003
LITS = "+-*/=<>()[],.!&^#@~?%\"$:;|{}`'aeoprt0_"


def tname(g, i):
    t = g['terms'][i]
    return "'%s'" % t['lit'] if t['lit'] else t['name']


def symname(g, s):
    return tname(g, s[1]) if s[0] == 't' else g['nonterms'][s[1]]['name']


def internal_name(g, s):
    """Name of the symbol inside yaccgo (Symbol.Name)."""
    if s[0] == 't':
        t = g['terms'][s[1]]
        return '$operator' + t['lit'] if t['lit'] else t['name']
    return g['nonterms'][s[1]]['name']


def random_grammar(rnd, nT=None, nN=None, max_alts=3, max_len=3, p_term=0.55, p_lit=0.25, p_prec=0.0,
                   p_nullable=None, want_tags=True, p_shuffle=0.3):
    nT = nT or rnd.randint(1, 4)
    nN = nN or rnd.randint(1, 4)
    lits = rnd.sample(LITS, min(len(LITS), nT))
    terms = []
    for i in range(nT):
        lit = lits[i] if rnd.random() < p_lit else None
        terms.append(dict(name='t%d' % i, lit=lit, tag=rnd.choice(TAGS) if want_tags else '', num=None, declared=True))
    nonterms = [dict(name='n%d' % j, tag=rnd.choice(TAGS) if want_tags else '') for j in range(nN)]
    for t in terms:
        if not t['lit'] and rnd.random() < 0.15:
            # an alias after the name (a string or a character; it names nothing: the token keeps its name and its code)
            t['alias'] = rnd.choice(['"n0"', '"number"', '"<="', "'q'", '"%s"' % t['name'].upper(), "'+'"])
        elif not t['lit'] and rnd.random() < 0.2:
            # declared twice, the way the examples do it: first with its tag, later (after the other declarations) without a tag -
            # and, as in the examples, the explicit number (a small one, where the automatic numbers start) stands in the second line
            t['redecl'] = True
            if rnd.random() < 0.5:
                used = set(x.get('num') for x in terms)
                t['num'] = next(v for v in rnd.sample([3, 4, 5, 6, 7, 8, 300, 301], 8) if v not in used)
    rules = []
    lens = [0, 1, 1, 2, 2, 3, 3, 4][:max(2, 2 * max_len)]
    for a in range(nN):
        for _ in range(rnd.randint(1, max_alts)):
            rhs = []
            for _ in range(rnd.choice(lens)):
                rhs.append(('t', rnd.randrange(nT)) if rnd.random() < p_term else ('n', rnd.randrange(nN)))
            rules.append(dict(lhs=a, rhs=rhs, prec=None, c=rnd.randint(0, 9), coef=[rnd.randint(1, 9) for _ in rhs]))
            if rnd.random() < 0.08:
                # an action that does not assign $$ (typical for an optional element): the value is the zero value
                rules[-1].update(noassign=True, c=0, coef=[0 for _ in rhs])
    if rnd.random() < p_shuffle:
        rnd.shuffle(rules)            # the rules of one nonterminal need not be written next to each other
    implicit = False
    if rnd.random() < 0.15:
        nonterms[0]['name'] = 'start'  # the default start symbol: no %start needed (and the name of yaccgo's internal start symbol)
        implicit = rnd.random() < 0.6
    if nN > 1 and rnd.random() < 0.12:
        # a nonterminal that the declarations list in a %token line (it has rules, so it is a nonterminal all the same)
        nonterms[rnd.randrange(1, nN)]['as_token'] = True
    precs = []
    if rnd.random() < p_prec:
        pool = list(range(nT))
        rnd.shuffle(pool)
        if nT > 1 and rnd.random() < 0.5:
            pool = pool[:rnd.randint(1, nT - 1)]      # some tokens have no precedence (and a %prec may name one of them)
        nlev = rnd.randint(1, min(3, len(pool)))
        for lv in range(nlev):
            take = pool[lv::nlev] if lv < nlev else []
            if take:
                precs.append((rnd.choice(['left', 'right', 'nonassoc', 'left', 'right', 'precedence']), take))
                for i in take:
                    if not terms[i]['lit'] and not terms[i].get('alias') and not terms[i].get('redecl') and rnd.random() < 0.3:
                        terms[i]['declared'] = False      # a token introduced by its precedence line only
        for r in rules:
            if rnd.random() < 0.2:
                r['prec'] = rnd.randrange(nT)
    g = dict(terms=terms, nonterms=nonterms, precs=precs, rules=rules, start=0)
    if implicit:
        g['implicit_start'] = True        # no %start line: the start symbol is the nonterminal called start
    if rnd.random() < 0.12:
        # the last rule group is not closed by `;`; half of the time its last alternative is an empty one
        g['open_end'] = True
        last = rules[-1]['lhs']
        if rnd.random() < 0.5 and not any(r['lhs'] == last and not r['rhs'] for r in rules):
            rules.append(dict(lhs=last, rhs=[], prec=None, c=rnd.randint(0, 9), coef=[]))
    return g


def twin_actions(g, rnd):
    """Makes the actions of all alternatives of one nonterminal with the same length textually identical
    (same coefficients, no rule number in the text) while their symbols carry different union fields."""
    by = {}
    for r in g['rules']:
        k = (r['lhs'], len(r['rhs']))
        if k not in by:
            by[k] = (rnd.randint(0, 9), [rnd.randint(1, 9) for _ in r['rhs']])
        r['c'], r['coef'] = by[k][0], list(by[k][1])
        r.pop('noassign', None)
    for i, t in enumerate(g['terms']):
        t['tag'] = TAGS[i % 3]
    for j, n in enumerate(g['nonterms']):
        n['tag'] = TAGS[(j + 1) % 3]
    g['plain_actions'] = True
    return g


def productive(g):
    prod = set()
    ch = True
    while ch:
        ch = False
        for r in g['rules']:
            if r['lhs'] not in prod and all(k == 't' or i in prod for (k, i) in r['rhs']):
                prod.add(r['lhs'])
                ch = True
    return len(prod) == len(g['nonterms'])


def all_defined(g):
    return set(r['lhs'] for r in g['rules']) == set(range(len(g['nonterms'])))


def usable(g):
    return all_defined(g) and productive(g)


def random_usable(rnd, **kw):
    while True:
        g = random_grammar(rnd, **kw)
        if usable(g):
            return g


def operator_grammar(rnd, nlev=None):
    """expr : expr OP expr | '-' expr %prec U | '(' expr ')' | NUM   with a random operator table."""
    nlev = nlev or rnd.randint(1, 4)
    ops = rnd.sample("+-*/=<>^&", rnd.randint(nlev, min(9, nlev + 3)))
    terms = [dict(name='NUM', lit=None, tag='v0', num=None, declared=True)]
    for o in ops:
        terms.append(dict(name='op', lit=o, tag='', num=None, declared=False))
    terms.append(dict(name='lp', lit='(', tag='', num=None, declared=False))
    terms.append(dict(name='rp', lit=')', tag='', num=None, declared=False))
    unary = rnd.random() < 0.6
    if unary:
        terms.append(dict(name='UMINUS', lit=None, tag='', num=None, declared=False))
    levels = [[] for _ in range(nlev)]
    for i, o in enumerate(ops):
        levels[rnd.randrange(nlev)].append(1 + i)
    precs = []
    for lv in levels:
        if lv:
            precs.append((rnd.choice(['left', 'right', 'nonassoc']), lv))
    if unary:
        if precs and rnd.random() < 0.4:
            # the name of the unary level written on the line of an operator level, after the character literals (%right '^' UMINUS)
            k = rnd.randrange(len(precs))
            precs[k] = (precs[k][0], precs[k][1] + [len(terms) - 1])
        else:
            precs.insert(rnd.randint(0, len(precs)), (rnd.choice(['left', 'right', 'nonassoc', 'precedence']), [len(terms) - 1]))
    nonterms = [dict(name='expr', tag='v0')]
    rules = []
    for i, o in enumerate(ops):
        rules.append(dict(lhs=0, rhs=[('n', 0), ('t', 1 + i), ('n', 0)], prec=None, c=i + 1, coef=[3, 0, 7]))
    if unary:
        rules.append(dict(lhs=0, rhs=[('t', 1 + rnd.randrange(len(ops))), ('n', 0)], prec=len(terms) - 1, c=5, coef=[0, 11]))
    rules.append(dict(lhs=0, rhs=[('t', 1 + len(ops)), ('n', 0), ('t', 2 + len(ops))], prec=None, c=0, coef=[0, 1, 0]))
    rules.append(dict(lhs=0, rhs=[('t', 0)], prec=None, c=0, coef=[1]))
    if unary and rnd.random() < 0.7:
        u = rules.pop(len(ops))
        rules.insert(rnd.randint(0, len(rules)), u)           # %prec alternative anywhere in the `|` list
    z = rnd.random()
    binary = [r for r in rules if len(r['rhs']) == 3 and r['rhs'][0] == ('n', 0) and r['rhs'][2] == ('n', 0)]
    if z < 0.25 and binary:
        # %prec naming a declared token that has no level: the rule loses the precedence its operator would give it
        terms.append(dict(name='STRIP', lit=None, tag='', num=None, declared=True))
        rnd.choice(binary)['prec'] = len(terms) - 1
    elif z < 0.45 and binary:
        # %prec naming a character literal that the file mentions nowhere else (no declaration, no level, no rule)
        terms.append(dict(name='hid', lit='~', tag='', num=None, declared=False, hidden=True))
        rnd.choice(binary)['prec'] = len(terms) - 1
    return dict(terms=terms, nonterms=nonterms, precs=precs, rules=rules, start=0, operator=True)


def wide_operator_grammar(rnd, nfill=62, nops=7):
    """expr : expr op expr | '(' expr ')' | K00 | K01 | ...  : more than 64 terminals, the operator tokens sort last (symbol numbers
    beyond a machine word's worth of bits), with precedence levels of every kind; every cell of the operator rows is a resolved conflict."""
    terms = [dict(name='K%02d' % i, lit=None, tag='v0', num=None, declared=True) for i in range(nfill)]
    for i in range(nops):
        terms.append(dict(name='zop%d' % i, lit=None, tag='', num=None, declared=False))
    terms.append(dict(name='lp', lit='(', tag='', num=None, declared=False))
    terms.append(dict(name='rp', lit=')', tag='', num=None, declared=False))
    nlev = rnd.randint(2, 4)
    levels = [[] for _ in range(nlev)]
    for i in range(nops):
        levels[rnd.randrange(nlev)].append(nfill + i)
    kinds = ['nonassoc'] + [rnd.choice(['left', 'right', 'nonassoc']) for _ in range(nlev)]
    precs = [(kinds[k], lv) for k, lv in enumerate(levels) if lv]
    rules = [dict(lhs=0, rhs=[('n', 0), ('t', nfill + i), ('n', 0)], prec=None, c=i % 10, coef=[3, 0, 7]) for i in range(nops)]
    rules.append(dict(lhs=0, rhs=[('t', nfill + nops), ('n', 0), ('t', nfill + nops + 1)], prec=None, c=0, coef=[0, 1, 0]))
    for i in range(nfill):
        rules.append(dict(lhs=0, rhs=[('t', i)], prec=None, c=i % 10, coef=[1]))
    return dict(terms=terms, nonterms=[dict(name='expr', tag='v0')], precs=precs, rules=rules, start=0, operator=True, big=True)


def many_token_grammar(rnd, nkw=None):
    """More than 256 grammar symbols: a large keyword vocabulary next to blocks of the shape
    stmt : o1 A x | o1 c z | o2 A y ;  A : c E | d ;  E : e   (the states after o1 and o2 both have a goto on A, A has a rule that
    ends in a nonterminal, and what follows A differs) - the symbol numbers of the nonterminals lie beyond one byte."""
    nkw = nkw or rnd.randint(250, 262)
    terms, rules = [], []
    def T(name):
        terms.append(dict(name=name, lit=None, tag='v0', num=None, declared=True))
        return ('t', len(terms) - 1)
    nonterms = [dict(name='stmt', tag='v0'), dict(name='kw', tag='v0')]
    def R(lhs, rhs, c):
        rules.append(dict(lhs=lhs, rhs=rhs, prec=None, c=c % 10, coef=[1 if s[0] == 'n' else 0 for s in rhs]))
    z = T('zz')
    nb = rnd.randint(3, 6)
    for b in range(nb):
        o1, o2, x, y, c, d, e = [T('%s%d' % (n, b)) for n in ('oa', 'ob', 'xa', 'xb', 'ca', 'da', 'ea')]
        nonterms.append(dict(name='Arg%d' % b, tag='v0')); A = ('n', len(nonterms) - 1)
        nonterms.append(dict(name='Ext%d' % b, tag='v0')); E = ('n', len(nonterms) - 1)
        R(0, [o1, A, x], b); R(0, [o1, c, z], b + 1); R(0, [o2, A, y], b + 2)
        R(A[1], [c, E], 1); R(A[1], [d], 2); R(E[1], [e], 7)
    k = T('kk')
    R(0, [k, ('n', 1)], 3)
    for i in range(nkw):
        R(1, [T('K%03d' % i)], i)
    return dict(terms=terms, nonterms=nonterms, precs=[], rules=rules, start=0, big=True)


def very_long_rule_grammar(rnd, odd=False):
    """A rule with more than 256 right-hand-side symbols (a record of 256 fixed fields and a tail): dot positions beyond one byte.
    even rule index: the symbol after the 256th is a nonterminal whose first rule is written directly after the long one;
    odd rule index: the long rule is right-recursive at that position."""
    k = 256 + rnd.randint(0, 2) * 0
    terms = [dict(name=n, lit=None, tag='v0', num=None, declared=True) for n in ('F', 'X', 'Y')]
    if odd:
        nonterms = [dict(name='record', tag='v0')]
        rules = [dict(lhs=0, rhs=[('t', 0)] * k + [('n', 0)], prec=None, c=1, coef=[0] * k + [1]),
                 dict(lhs=0, rhs=[('t', 1)], prec=None, c=2, coef=[1])]
        return dict(terms=terms, nonterms=nonterms, precs=[], rules=rules, start=0, big=True)
    nonterms = [dict(name='file', tag='v0'), dict(name='record', tag='v0'), dict(name='tail', tag='v0')]
    rules = [dict(lhs=0, rhs=[('n', 1)], prec=None, c=0, coef=[1]),
             dict(lhs=1, rhs=[('t', 0)] * k + [('n', 2)], prec=None, c=1, coef=[0] * k + [1]),
             dict(lhs=2, rhs=[('t', 1)], prec=None, c=2, coef=[1]),
             dict(lhs=2, rhs=[('t', 2)], prec=None, c=3, coef=[1])]
    return dict(terms=terms, nonterms=nonterms, precs=[], rules=rules, start=0, big=True)


def nonassoc_shared_grammar(rnd):
    """A rule X : a %prec '<' whose completed item stands in two or more states: in one of them '<' can also be shifted (the conflict
    is settled by the level of '<': an error for %nonassoc), in the others the reduction on '<' is free of conflict."""
    k = rnd.randint(1, 3)
    ctx = ['d X < c', 'f X < c', 'g g X < c'][:k]
    alts = ['P'] + ctx
    rnd.shuffle(alts)
    palts = ['X < c', 'Y']
    rnd.shuffle(palts)
    spec = 'S: %s ; P: %s ; X: a ; Y: a < e' % (' | '.join(alts), ' | '.join(palts))
    kind = rnd.choice(['nonassoc', 'nonassoc', 'left', 'right'])
    g = from_text(spec, ((kind, ['<']),), start='S')
    lt = next(i for i, t in enumerate(g['terms']) if t['lit'] == '<')
    for r in g['rules']:
        if g['nonterms'][r['lhs']]['name'] == 'X':
            r['prec'] = lt
    return g


def rr_prec_grammar(rnd):
    """Reduce/reduce conflicts between rules that carry precedence (two or three nonterminals with the same right-hand side that ends
    in an operator token), next to shift/reduce conflicts of the same levels: the resolution looks at the order of the candidates."""
    k = rnd.randint(2, 3)
    twins = ['N', 'M', 'P'][:k]
    body = rnd.choice(['- x', '- x', 'x -', '- x -'])
    alts = ['E + E'] + twins + (['x'] if rnd.random() < 0.5 else [])
    rnd.shuffle(alts)
    spec = 'S: E ; E: %s ; %s' % (' | '.join(alts), ' ; '.join('%s: %s' % (t, body if (i == 0 or rnd.random() < 0.8) else 'y x') for i, t in enumerate(twins)))
    kind = rnd.choice(['left', 'right', 'nonassoc'])
    if rnd.random() < 0.6:
        precs = ((kind, ['+', '-']),)
    else:
        precs = ((kind, ['+']), (rnd.choice(['left', 'right']), ['-'])) if rnd.random() < 0.5 else ((kind, ['-']), (rnd.choice(['left', 'right']), ['+']))
    return from_text(spec, precs, start='S')


def dup_rule_grammar(rnd):
    """A usable grammar in which one production is written twice (a pasted alternative), with productions after the copy."""
    while True:
        g = random_usable(rnd, nT=rnd.randint(2, 4), nN=rnd.randint(2, 3), p_shuffle=0.0)
        if len(g['rules']) >= 3:
            break
    k = rnd.randrange(0, len(g['rules']) - 1)
    j = rnd.randint(k + 1, len(g['rules']) - 1)
    cp = dict(g['rules'][k]); cp['coef'] = list(cp['coef']); cp['rhs'] = list(cp['rhs'])
    g['rules'].insert(j, cp)
    return g


def big_grammar(rnd, nt=None, nu=None, square=False):
    """More than 256 productions: list : list item | item ; item : T_i U_j for every pair (square: T_i T_j over one pool of
    17 terminals).  Rule numbers beyond one byte, many single-item states that differ only in the rule number."""
    if square:
        nt = nt or 17
        terms = [dict(name='T%d' % i, lit=None, tag=TAGS[i % 3], num=None, declared=True) for i in range(nt)]
        pairs = [(i, j) for i in range(nt) for j in range(nt)]
    else:
        nt = nt or 19
        nu = nu or 14
        terms = [dict(name='T%d' % i, lit=None, tag=TAGS[i % 3], num=None, declared=True) for i in range(nt)] + \
                [dict(name='U%d' % j, lit=None, tag=TAGS[j % 3], num=None, declared=True) for j in range(nu)]
        pairs = [(i, nt + j) for i in range(nt) for j in range(nu)]
    nonterms = [dict(name='list', tag='v0'), dict(name='item', tag='v1')]
    rules = [dict(lhs=0, rhs=[('n', 0), ('n', 1)], prec=None, c=1, coef=[1, 3]), dict(lhs=0, rhs=[('n', 1)], prec=None, c=2, coef=[1])]
    for k, (a, b) in enumerate(pairs):
        rules.append(dict(lhs=1, rhs=[('t', a), ('t', b)], prec=None, c=k % 97, coef=[1 + (a % 5), 1 + (b % 7)]))
    return dict(terms=terms, nonterms=nonterms, precs=[], rules=rules, start=0, big=True)


def marker_grammar(rnd):
    """stmt : head opt_1 .. opt_k mark_1 .. mark_j TERM  with optional parts and empty-only markers after a nonterminal:
    the lookahead of `head -> NAME` is reached through a chain of nullable transitions some of which read nothing themselves."""
    k, j = rnd.randint(1, 3), rnd.randint(1, 2)
    names = ['n', 's'] + ['a%d' % i for i in range(k)]
    parts = ['H'] + ['O%d' % i for i in range(k)] + ['M%d' % i for i in range(j)]
    rnd.shuffle(parts[1:])
    spec = 'S: T | S T ; T: %s s ; H: n' % ' '.join(parts)
    for i in range(k):
        spec += ' ; O%d: | %s' % (i, rnd.choice(['a%d' % i, 'a%d O%d' % (i, i), 'G%d' % i]))
        if 'G%d' % i in spec.split(';')[-1]:
            spec += ' ; G%d: a%d | G%d a%d' % (i, i, i, i)
    for i in range(j):
        spec += ' ; M%d: ' % i
    return from_text(spec)


def optional_grammar(rnd):
    """line : opt body ; opt : /* empty, the action does not assign $$ */ | m ; body : a | body a  -- the value of the
    empty alternative is the zero value, whatever an earlier parse left behind."""
    terms = [dict(name='m', lit=rnd.choice([None, '-']), tag='v0', num=None, declared=True), dict(name='a', lit=None, tag='v1', num=None, declared=True)]
    nonterms = [dict(name='line', tag='v2'), dict(name='opt', tag=rnd.choice(TAGS)), dict(name='body', tag='v1')]
    rules = [dict(lhs=0, rhs=[('n', 1), ('n', 2)], prec=None, c=rnd.randint(0, 5), coef=[rnd.randint(3, 9), 1]),
             dict(lhs=1, rhs=[], prec=None, c=0, coef=[], noassign=True),
             dict(lhs=1, rhs=[('t', 0)], prec=None, c=rnd.randint(1, 9), coef=[rnd.randint(1, 3)]),
             dict(lhs=2, rhs=[('t', 1)], prec=None, c=0, coef=[1]),
             dict(lhs=2, rhs=[('n', 2), ('t', 1)], prec=None, c=1, coef=[1, 2], noassign=rnd.random() < 0.3)]
    if rules[4].get('noassign'):
        rules[4].update(c=0, coef=[0, 0])
    return dict(terms=terms, nonterms=nonterms, precs=[], rules=rules, start=0)


def wide_grammar(rnd, nt=None, nx=None):
    """A table with more than 64 columns: 60 keyword terminals, 8 argument terminals, 10 nonterminals.
    prog : prog item | item ; item : T_i X_(i mod nx) ; X_k : U_k | U_k X_k"""
    nt = nt or 60
    nx = nx or 8
    terms = [dict(name='K%d' % i, lit=None, tag=TAGS[i % 3], num=None, declared=True) for i in range(nt)] + \
            [dict(name='U%d' % k, lit=None, tag=TAGS[k % 3], num=None, declared=True) for k in range(nx)]
    nonterms = [dict(name='prog', tag='v0'), dict(name='item', tag='v1')] + [dict(name='x%d' % k, tag=TAGS[k % 3]) for k in range(nx)]
    rules = [dict(lhs=0, rhs=[('n', 0), ('n', 1)], prec=None, c=1, coef=[1, 3]), dict(lhs=0, rhs=[('n', 1)], prec=None, c=2, coef=[1])]
    for i in range(nt):
        rules.append(dict(lhs=1, rhs=[('t', i), ('n', 2 + i % nx)], prec=None, c=i % 89, coef=[1 + i % 4, 2]))
    for k in range(nx):
        rules.append(dict(lhs=2 + k, rhs=[('t', nt + k)], prec=None, c=k, coef=[1]))
        rules.append(dict(lhs=2 + k, rhs=[('t', nt + k), ('n', 2 + k)], prec=None, c=k + 1, coef=[1, 2]))
    return dict(terms=terms, nonterms=nonterms, precs=[], rules=rules, start=0, big=True)


def long_rule_grammar(rnd):
    """One rule with 10-13 right-hand-side symbols whose action reads every $n (two-digit $n), next to a short one."""
    k = rnd.randint(10, 13)
    terms = [dict(name='w%d' % i, lit=None, tag=TAGS[i % 3], num=None, declared=True) for i in range(k)]
    nonterms = [dict(name='S', tag='v1'), dict(name='U', tag='v2')]
    mix = [('t', i) for i in range(k)]
    mix[rnd.randrange(1, k - 1)] = ('n', 1)
    rules = [dict(lhs=0, rhs=mix, prec=None, c=rnd.randint(0, 9), coef=[rnd.randint(1, 9) for _ in range(k)]),
             dict(lhs=0, rhs=[('t', 0)], prec=None, c=3, coef=[2]),
             dict(lhs=1, rhs=[('t', 1), ('t', 2)], prec=None, c=1, coef=[5, 7])]
    return dict(terms=terms, nonterms=nonterms, precs=[], rules=rules, start=0)


def long_first_grammar(rnd, pos=1):
    """A rule with 10-14 right-hand-side symbols as rule number `pos` (1 or 2) in a grammar with more than 10*pos+1 rules: item
    (pos, dot 10) next to item (10*pos+1, dot 0), (pos, 11) next to (10*pos+1, 1) - the pairs whose decimal digits run together."""
    k = rnd.randint(11, 14)
    terms = [dict(name='w%d' % i, lit=None, tag=TAGS[i % 3], num=None, declared=True) for i in range(k)]
    nonterms = [dict(name='S', tag='v1'), dict(name='U', tag='v2'), dict(name='V', tag='v0')]
    mix = [('t', i) for i in range(k)]
    mix[rnd.randrange(1, 9)] = ('n', 1)
    mix[k - 1] = ('n', 2)
    longr = dict(lhs=0, rhs=mix, prec=None, c=rnd.randint(0, 9), coef=[rnd.randint(1, 9) for _ in range(k)])
    rules = [dict(lhs=0, rhs=[('t', 0)], prec=None, c=3, coef=[2])] if pos == 2 else []
    rules.append(longr)
    need = 10 * pos + 3 + rnd.randint(0, 3)
    combos = [(lhs, ln, st) for lhs in (1, 2) for ln in (1, 2, 3) for st in range(k)]
    rnd.shuffle(combos)
    for i, (lhs, ln, st) in enumerate(combos[:need - len(rules)]):
        rhs = [('t', (st + j) % k) for j in range(ln)]
        rules.append(dict(lhs=lhs, rhs=rhs, prec=None, c=i % 10, coef=[1 + (i + j) % 9 for j in range(ln)]))
    if not any(r['lhs'] == 1 for r in rules[1:]):
        rules.append(dict(lhs=1, rhs=[('t', 0)], prec=None, c=1, coef=[1]))
    if not any(r['lhs'] == 2 for r in rules[1:]):
        rules.append(dict(lhs=2, rhs=[('t', 1)], prec=None, c=1, coef=[1]))
    return dict(terms=terms, nonterms=nonterms, precs=[], rules=rules, start=0)


def layered_expr(rnd, nlev=None):
    """Unambiguous expression grammar in layers:  L0 : L0 op L1 | ... | L1 ;  ... ;  Lk : '(' L0 ')' | u Lk | id
    with 1-4 binary operators per layer (left recursive), so that one nonterminal is entered from several
    contexts into a state that shifts several terminals."""
    nlev = nlev or rnd.randint(1, 3)
    ops = list("+-*/%^&=<>!~?")
    rnd.shuffle(ops)
    terms = []
    def T(lit=None, name=None):
        terms.append(dict(name=name or 'o%d' % len(terms), lit=lit, tag='v0', num=None, declared=True))
        return ('t', len(terms) - 1)
    ident = T(None, 'ID')
    lp, rp = T('('), T(')')
    nonterms = [dict(name='L%d' % i, tag='v0') for i in range(nlev + 1)]
    rules = []
    def R(lhs, rhs):
        rules.append(dict(lhs=lhs, rhs=rhs, prec=None, c=len(rules) % 10, coef=[(3 * i + len(rules)) % 9 + 1 for i in range(len(rhs))]))
    wrap = rnd.random() < 0.4
    for lv in range(nlev):
        # a layer may have no operator at all (a pure unit rule, as in  prog : expr ;  expr : term)
        for _ in range(rnd.choice([0, 1, 2, 3, 3, 4])):
            if ops:
                R(lv, [('n', lv), T(ops.pop()), ('n', lv + 1)])
        R(lv, [('n', lv + 1)])
    R(nlev, [lp, ('n', 0), rp])
    if ops and rnd.random() < 0.6:
        R(nlev, [T(ops.pop()), ('n', nlev)])
    R(nlev, [ident])
    start = 0
    if wrap:
        nonterms.append(dict(name='prog', tag='v0'))
        R(len(nonterms) - 1, [('n', 0)])
        start = len(nonterms) - 1
    return dict(terms=terms, nonterms=nonterms, precs=[], rules=rules, start=start)


def ring_grammar(rnd, k=None, nullable=False):
    """Mutual right recursion through k nonterminals (an includes-cycle of k transitions), each member also
    used from the start symbol behind a prefix of its own length and followed by its own terminator:
        S : N0 x0 | p N1 x1 | p p N2 x2 ... ;  Ni : ti N(i+1 mod k) | ei   (ei empty when nullable)
    The lookahead of every reduction inside the ring is the union over the whole cycle."""
    k = k or rnd.randint(2, 4)
    terms = []
    def T(name):
        terms.append(dict(name=name, lit=None, tag='v0', num=None, declared=True))
        return ('t', len(terms) - 1)
    p = T('p')
    xs = [T('x%d' % i) for i in range(k)]
    ts = [T('t%d' % i) for i in range(k)]
    es = [T('e%d' % i) for i in range(k)]
    nonterms = [dict(name='S', tag='v0')] + [dict(name='N%d' % i, tag='v0') for i in range(k)]
    rules = []
    def R(lhs, rhs):
        rules.append(dict(lhs=lhs, rhs=rhs, prec=None, c=len(rules) % 10, coef=[(3 * i + len(rules)) % 9 + 1 for i in range(len(rhs))]))
    order = list(range(k))
    rnd.shuffle(order)
    for i in order:
        R(0, [p] * i + [('n', 1 + i), xs[i]])
    for i in range(k):
        R(1 + i, [ts[i], ('n', 1 + (i + 1) % k)])
        R(1 + i, [] if (nullable and i % 2 == 0) else [es[i]])
    return dict(terms=terms, nonterms=nonterms, precs=[], rules=rules, start=0)


# ---------------------------------------------------------------- curated grammars (textbook families)
def from_text(spec, precs=(), start=None):
    """spec: 'S: L = R | R ; L: * R | id ; R: L'  (single characters that are not letters are literals;
    lower-case words listed as left-hand sides are nonterminals, everything else a named token)."""
    alts = [x.strip() for x in spec.split(';') if x.strip()]
    lhs_names = [a.split(':')[0].strip() for a in alts]
    nonterms = []
    for n in lhs_names:
        if n not in [x['name'] for x in nonterms]:
            nonterms.append(dict(name=n, tag='v0'))
    nidx = {n['name']: i for i, n in enumerate(nonterms)}
    terms = []
    tidx = {}
    rules = []
    for a in alts:
        lhs, body = a.split(':', 1)
        lhs = lhs.strip()
        for alt in body.split('|'):
            rhs = []
            for w in alt.split():
                if w in nidx:
                    rhs.append(('n', nidx[w]))
                else:
                    if w not in tidx:
                        tidx[w] = len(terms)
                        if len(w) == 1 and not w.isalnum():
                            terms.append(dict(name='lit%d' % len(terms), lit=w, tag='v0', num=None, declared=True))
                        else:
                            terms.append(dict(name=w, lit=None, tag='v0', num=None, declared=True))
                    rhs.append(('t', tidx[w]))
            rules.append(dict(lhs=nidx[lhs], rhs=rhs, prec=None, c=len(rules) % 10, coef=[(3 * i + len(rules)) % 9 + 1 for i in range(len(rhs))]))
    pl = []
    for kind, names in precs:
        pl.append((kind, [tidx[n] for n in names]))
    return dict(terms=terms, nonterms=nonterms, precs=pl, rules=rules, start=nidx[start] if start else 0)


CURATED = {
    # LALR(1) but not SLR(1) (dragon book 4.20)
    'lalr_not_slr': ('S: L = R | R ; L: * R | id ; R: L', ()),
    # LALR(1) but not NQLALR / path-sensitive lookback (DeRemer-Pennello style)
    'lalr_paths': ('S: A a | b A c | B c | b D a ; B: d ; D: d ; A: d', ()),
    # LR(1) but not LALR(1): reduce/reduce conflict after merging
    'lr1_not_lalr': ('S: a E c | a F d | b F c | b E d ; E: e ; F: e', ()),
    'expr': ('E: E + T | T ; T: T * F | F ; F: ( E ) | id', ()),
    'ambig_expr': ('E: E + E | E * E | ( E ) | id', ()),
    'ambig_prec': ('E: E + E | E * E | ( E ) | id', (('left', ['+']), ('left', ['*']))),
    'dangling_else': ('S: i S | i S e S | x', ()),
    'nullable_list': ('L: | L x', ()),
    'nullable_chain': ('S: A B C d ; A: | a ; B: | b A ; C: | c B', ()),
    # a nonterminal followed by an optional part and an empty-only marker (mid-rule action marker): the transition on the optional
    # part reads no terminal directly, the terminator is read two nullable transitions further on
    'marker_chain': ('S: T | S T ; T: H O M s ; H: n ; O: | G ; G: i | G i ; M: ', ()),
    'marker_chain2': ('S: H O P M N s | S x ; H: n ; O: | i ; P: | O j ; M: ; N: ', ()),
    'right_rec': ('L: x | x L', ()),
    'rr_conflict': ('S: A | B ; A: x ; B: x', ()),
    'rr_three': ('S: A | B | C ; A: x ; B: x ; C: x', ()),
    'cyclic': ('S: S | a', ()),
    'mutual_cycle': ('S: A | a ; A: S', ()),
    'nonassoc': ('E: E < E | E + E | id', (('nonassoc', ['<']), ('left', ['+']))),
    'right_assoc': ('E: E ^ E | E - E | id', (('left', ['-']), ('right', ['^']))),
    'reads_chain': ('S: A B c | d ; A: a | ; B: b | A', ()),
    'includes_cycle': ('S: A x ; A: B ; B: A | b |', ()),
    'eps_only': ('S: A A ; A: ', ()),
    'deep_nullable': ('S: A B C ; A: B C | a ; B: C | b ; C: | c', ()),
    'palindrome_even': ('S: a S a | b S b |', ()),
    # includes-cycles through several nonterminals, entered from different left contexts
    'ring3': ('S: A u | z B v | z z C w ; A: a B | e ; B: b C | f ; C: c A | g', ()),
    'chain_two_contexts': ('D: C s | h i j k C d ; C: | K T ; T: V C | E', ()),
    'ring2_nullable': ('S: A u | z B v ; A: a B | ; B: b A | f', ()),
    # one item set {B -> p q t . , C -> t . u} reached from two left contexts, through states whose kernel items arrive
    # in a different order (rule numbering: A < X < B < Y < C)
    'unit_term3': ('P: E ; E: T ; T: T * F | T / F | T % F | F ; F: ( E ) | - F | id', ()),
    'expr3': ('E: E + T | E - T | T ; T: T * F | T / F | T % F | F ; F: ( E ) | - F | id', ()),
    # two nonterminals without anything shiftable after them, each ending two rules with different left sides, whose follow sets
    # share a first contribution and differ in the second ('=' for name, ':' for num)
    'follow_share': ('line: operand + operand | operand - operand | operand * operand | target = operand | label : operand ; '
                     'operand: name | num ; target: name ; label: num ; name: ID ; num: NUM', ()),
    'two_paths': ('A: q C ; X: p A ; B: p q t ; Y: p q C ; C: t u ; S: k X | k B | l Y | l B', ()),
}


def curated():
    out = {}
    for k, (spec, precs) in CURATED.items():
        out[k] = from_text(spec, precs, start='S' if k == 'two_paths' else None)
    # a state (after x) whose only terminal column with a candidate is settled as an error by %nonassoc (shift t against the
    # empty rule with %prec t), so its row of the action part is all error codes and everything it stores explicitly is a
    # goto: the row with the most explicit cells, placed first by the packing (C05: the hypothesis of
    # C05_offsets_from_actions does not hold for it, the condition on the offset vector must hold all the same)
    g = from_text('S: A t ; A: x B ; B: P | Q | R | E ; P: t p ; Q: t q ; R: t r ; E: ', (('nonassoc', ['t']),))
    tn = [i for i, t in enumerate(g['terms']) if t['name'] == 't'][0]
    g['rules'][-1]['prec'] = tn
    out['all_error_row'] = g
    return out


def edge_grammars():
    """Grammars at the edge of what the declarations allow (they may be refused; when they are accepted the parser must be right).
    start_alias: a token that is given the end marker's code -1 and happens to be called `start`, used in a rule."""
    g = from_text('S: a start | a', ())
    for t in g['terms']:
        if t['name'] == 'start':
            t['num'] = -1
    g2 = from_text('S: a EOF | a', ())
    for t in g2['terms']:
        if t['name'] == 'EOF':
            t['num'] = -1
    for gg in (g, g2):
        gg['rules'][0]['coef'] = [1, 0]      # the action does not read the value of the alias
    return {'start_alias': g, 'eof_alias': g2}


def two_path_grammar(rnd):
    """Variations of `two_paths`: a shared item set reached through a state built from a low-numbered rule with a
    nonterminal after the dot plus a higher-numbered rule with a terminal after the dot, and through a state where
    the same items appear in rule order. Prefix length, the order of the alternatives of S and decoy rules vary."""
    k = rnd.randint(1, 3)
    pre = ' '.join(['p'] * k)
    tail = rnd.choice(['t u', 't u u', 't'])
    mid = rnd.choice(['t', 't u'])
    alts = ['k X', 'k B', 'l Y', 'l B']
    rnd.shuffle(alts)
    decoy = rnd.choice(['', ' ; D: d D | d', ' ; D: q'])
    spec = 'A: q C ; X: %s A ; B: %s q %s ; Y: %s q C ; C: %s ; S: %s%s' % (pre, pre, mid, pre, tail, ' | '.join(alts), decoy)
    if decoy:
        spec = spec.replace('S: ', 'S: D z | ', 1) if 'D:' in decoy else spec
    return from_text(spec, (), start='S')


# ---------------------------------------------------------------- rendering
def render_decls(g, lang='go', with_tags=True):
    out = []
    for i, t in enumerate(g['terms']):
        if not t.get('declared', True):
            continue
        tag = '<%s> ' % t['tag'] if (with_tags and t['tag']) else ''
        num = ' %d' % t['num'] if (t.get('num') is not None and not t.get('redecl')) else (' ' + t['alias'] if t.get('alias') and not t['lit'] else '')
        out.append('%%token %s%s%s\n' % (tag, tname(g, i), num))
    if with_tags:
        for n in g['nonterms']:
            if n.get('as_token'):
                out.append('%%token <%s> %s\n' % (n['tag'] or 'v0', n['name']))     # a name with rules, listed in a %token line
            elif n['tag']:
                out.append('%%type <%s> %s\n' % (n['tag'], n['name']))
    out += redeclarations(g)
    for kind, ts in g['precs']:
        out.append('%%%s %s\n' % (kind, ' '.join(tname(g, i) for i in ts)))
    if not (g.get('implicit_start') and g['nonterms'][g['start']]['name'] == 'start'):
        out.append('%%start %s\n' % g['nonterms'][g['start']]['name'])
    return ''.join(out)


def redeclarations(g):
    """Second, untagged declarations of the tokens flagged `redecl` (written after the %type lines)."""
    return ['%%token %s%s\n' % (t['name'], ' %d' % t['num'] if t.get('num') is not None else '') for t in g['terms'] if t.get('redecl') and t.get('declared', True) and not t['lit']]


def render_rules(g, action=None):
    """One `lhs : alt | alt ... ;` group per run of consecutive rules with the same left-hand side; every
    third run is written as separate `lhs : alt ;` rules instead, so that both spellings are exercised."""
    out = []
    runs = []
    for idx, r in enumerate(g['rules']):
        if runs and g['rules'][runs[-1][-1]]['lhs'] == r['lhs']:
            runs[-1].append(idx)
        else:
            runs.append([idx])
    for k, run in enumerate(runs):
        alts = []
        for idx in run:
            r = g['rules'][idx]
            body = ' '.join(symname(g, s) for s in r['rhs'])
            pr = ' %%prec %s' % tname(g, r['prec']) if r['prec'] is not None else ''
            act = ' ' + action(idx, r) if action else ''
            alts.append('%s%s%s%s%s' % (body, COMMENTS[(idx * 5 + 1) % len(COMMENTS)] if idx % 3 == 1 else '', pr, act,
                                      COMMENTS[(idx * 3) % len(COMMENTS)] if idx % 4 == 2 else ''))
        lhs = g['nonterms'][g['rules'][run[0]]['lhs']]['name']
        # the last group may be left open (no `;` before the second %%), as the examples of the repository do
        end = '\n' if (g.get('open_end') and k == len(runs) - 1) else ' ;\n'
        if k % 3 == 2:
            for ai, a in enumerate(alts):
                out.append('%s : %s%s' % (lhs, a, end if ai == len(alts) - 1 else ' ;\n'))
        else:
            out.append('%s : %s%s' % (lhs, '\n  | '.join(alts), end))
    return ''.join(out) + ('' if g.get('open_end') else '/* end of the rules */\n')


# comments as grammar authors write them; every one is complete, so the text between two of them is always grammar text
COMMENTS = [' /* alt */', ' /** doc **/', ' /***/', ' // to the end of the line\n ', ' /**/', ' /* a * b ** c */', ' /****/', ' /* / */',
            ' /** two\n * lines\n **/', ' /*** banner ***/']


def render_plain(g, pkg='main'):
    """A complete .y file with a minimal prologue/epilogue and no actions (in-process dumps)."""
    union = ' v0 int\n v1 int\n v2 int\n'
    return ('%{\npackage ' + pkg + '\nimport "fmt"\n%}\n%union {\n' + union + '}\n' + render_decls(g) + '%%\n' +
            render_rules(g) + '%%\nfunc GetToken(input string, valTy *ValType, pos *int) int { return -1 }\nvar _ = fmt.Sprint\n')


def all_strings(n_terms, maxlen):
    yield ()
    for L in range(1, maxlen + 1):
        for tup in itertools.product(range(n_terms), repeat=L):
            yield tup


def random_sentence(rnd, g, maxdepth=8, maxlen=30):
    """A random derivation from the start symbol (None if it got too long)."""
    by = {}
    for r in g['rules']:
        by.setdefault(r['lhs'], []).append(r)
    # shortest-derivation depth to steer termination
    depth = {}
    ch = True
    while ch:
        ch = False
        for r in g['rules']:
            d = 1 + max([0] + [depth.get(i, 10 ** 6) if k == 'n' else 0 for (k, i) in r['rhs']])
            if d < depth.get(r['lhs'], 10 ** 6):
                depth[r['lhs']] = d
                ch = True
    out = []

    def rec(a, budget):
        opts = by[a]
        if budget <= depth.get(a, 1):
            best = min(1 + max([0] + [depth.get(i, 10 ** 6) if k == 'n' else 0 for (k, i) in r['rhs']]) for r in opts)
            opts = [r for r in opts if 1 + max([0] + [depth.get(i, 10 ** 6) if k == 'n' else 0 for (k, i) in r['rhs']]) == best]
        r = rnd.choice(opts)
        for (k, i) in r['rhs']:
            if len(out) > maxlen:
                return
            if k == 't':
                out.append(i)
            else:
                rec(i, budget - 1)

    rec(g['start'], maxdepth)
    if len(out) > maxlen:
        return None
    return tuple(out)
