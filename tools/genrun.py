#!/usr/bin/env python3
"""Interface I6: generate parsers with the yaccgo CLI built from /repo for all five variants,
batch-compile the Go ones into one binary, run the TypeScript one under node >= 22, and run
inputs / histories / traced runs through them."""
import json, os, re, shutil, subprocess, sys, concurrent.futures as cf
sys.path.insert(0, os.path.dirname(os.path.abspath(__file__)))
import vlib, gram

LIMIT = 60          # reductions per parse before the action panics (ambiguous grammars can loop)
GO_VARIANTS = [('gp', [], False), ('gu', ['-u'], False), ('op', ['-o'], True), ('ou', ['-o', '-u'], True)]
VARIANT_INDEX = {'gp': 0, 'gu': 1, 'op': 2, 'ou': 3, 'ts': 4}
ALL_VARIANTS = ['gp', 'gu', 'op', 'ou', 'ts']


def tok_expr(g, i, lang):
    t = g['terms'][i]
    if t['lit']:
        return str(ord(t['lit']))
    return t['name']


def go_action(idx, r, plain=False):
    expr = ' + '.join(['%d*$%d' % (r['coef'][j], j + 1) for j in range(len(r['rhs'])) if r['coef'][j] != 0] + [str(r['c'])])
    # a rule whose action does not assign $$ : its value is the zero value (c = 0 and all coefficients 0 in the model's action)
    assign = '' if r.get('noassign') else '; $$ = (%s) %% %d' % (expr, gram.MOD)
    if plain:
        return '{ Steps++; if Steps > %d { panic("STEPLIMIT") }%s }' % (LIMIT, assign)
    return '{ Reds = append(Reds, %d*1000+Fetched); if len(Reds) > %d { panic("STEPLIMIT") }; nestHookR()%s }' % (idx + 1, LIMIT, assign)


def ts_action(idx, r, plain=False):
    expr = ' + '.join(['%d*$%d' % (r['coef'][j], j + 1) for j in range(len(r['rhs'])) if r['coef'][j] != 0] + [str(r['c'])])
    assign = '' if r.get('noassign') else '; $$ = (%s) %% %d' % (expr, gram.MOD)
    if plain:
        return '{ Steps++; if (Steps > %d) { throw new Error("STEPLIMIT") }%s }' % (LIMIT, assign)
    return '{ Reds.push(%d*1000+Fetched); if (Reds.length > %d) { throw new Error("STEPLIMIT") }%s }' % (idx + 1, LIMIT, assign)


def fix_tags(g):
    """The harness needs a value on every symbol that an action reads or writes: give every symbol a tag,
    and make sure a coefficient is 0 for symbols without one (never happens after this)."""
    for t in g['terms']:
        if not t['tag']:
            t['tag'] = 'v0'
    for n in g['nonterms']:
        if not n['tag']:
            n['tag'] = 'v0'
    return g


def decl_block(g, lang):
    out = []
    # every terminal is declared with its tag (literals too), so that $n works on all of them
    # a named token flagged declared=False that stands in a precedence line appears there first; its tagged %token line follows
    inprec = set(i for _, ts in g['precs'] for i in ts)
    late = []
    for i, t in enumerate(g['terms']):
        num = ' %d' % t['num'] if (t.get('num') is not None and not t.get('redecl')) else (' ' + t['alias'] if t.get('alias') and not t['lit'] else '')
        line = '%%token <%s> %s%s\n' % (t['tag'], gram.tname(g, i), num)
        if t.get('hidden'):
            continue          # a literal that occurs in a %prec only
        if t.get('declared') is False and not t['lit'] and i in inprec and not num:
            late.append(line)
        else:
            out.append(line)
    for n in g['nonterms']:
        out.append('%%%s <%s> %s\n' % ('token' if n.get('as_token') else 'type', n['tag'], n['name']))
    out += [x for x in gram.redeclarations(dict(g, terms=[dict(t, declared=True) for t in g['terms']]))]
    for kind, ts in g['precs']:
        out.append('%%%s %s\n' % (kind, ' '.join(gram.tname(g, i) for i in ts)))
    out += late
    if not (g.get('implicit_start') and g['nonterms'][g['start']]['name'] == 'start'):
        out.append('%%start %s\n' % g['nonterms'][g['start']]['name'])
    return ''.join(out)


GO_EPI = '''
var Reds []int
var Fetched int
var Steps int
var NestAt int = -1
var NestInput string
var NestResult string
var NestAtR int = -1
func nestHookR() {
	if len(Reds) == NestAtR {
		NestAtR = -1
		sr, sf, ss := Reds, Fetched, Steps
		if IsTrace { fmt.Println("#NEST-BEGIN") }
		NestResult = runNested(NestInput)
		if IsTrace { fmt.Println("#NEST-END") }
		Reds, Fetched, Steps = sr, sf, ss
	}
}
func GetToken(input string, valTy *ValType, pos *int) int {
	Fetched++
	if Fetched == NestAt {
		NestAt = -1
		sr, sf, ss := Reds, Fetched, Steps
		NestResult = runNested(NestInput)
		Reds, Fetched, Steps = sr, sf, ss
	}
	if *pos >= len(input) { return -1 }
	zzc := int(input[*pos]) - 'a'
	*pos++
	if zzc == 24 { panic("LEXTHROW") } // 'y': a strict lexer that gives up on an illegal character
	// a lexer that keeps a running token count in the value record it is handed, as a line-counting lexer would;
	// in one parse the count is the position (the record starts out zero at every Parser call)
	valTy.zzseq++
	zzx := valTy.zzseq*31 + zzc + 1
	_ = zzx
	switch zzc {
%(cases)s
	}
	// 'u'..'x' (when they are no tokens of the grammar): the codes just above the largest token code - the numbers yaccgo
	// gives the nonterminals internally; they are codes of no token
	if zzc >= 20 && zzc <= 23 {
		zzm := 0
		for _, zzk := range []int{%(codes)s} { if zzk > zzm { zzm = zzk } }
		return zzm + (24 - zzc)
	}
	return 7777
}
func render(v *ValType) string {
	if v == nil { return fmt.Sprint("N|", Reds, "|", Fetched) }
	return fmt.Sprint("A|", v.%(starttag)s, "|", Reds, "|", Fetched)
}
func runOnce(f func() *ValType) (res string) {
	Reds = nil; Fetched = 0; Steps = 0
	defer func() { if r := recover(); r != nil { res = fmt.Sprint("E|", r, "|", Reds, "|", Fetched) } }()
	return render(f())
}
%(modefuncs)s
func Run(mode string, input string) string {
	switch mode {
	case "run":
		return RunFresh(input)
	case "trace":
		IsTrace = true
		defer func() { IsTrace = false }()
		return RunFresh(input)
	case "hist":
		out := []string{}
		for _, in := range strings.Split(input, ",") { out = append(out, RunShared(in)) }
		return strings.Join(out, " ; ")
	case "rep":
		// the same input parsed again and again on the shared parser / context: first result, last result, number of distinct results
		f := strings.Split(input, ",")
		n := 0
		fmt.Sscan(f[1], &n)
		first, last := "", ""
		seen := map[string]bool{}
		for i := 0; i < n; i++ {
			last = RunShared(f[0])
			if i == 0 { first = last }
			seen[last] = true
		}
		return fmt.Sprint(first, " ; ", last, " ; ", len(seen))
	case "xlate":
		// the code-to-symbol translation of this variant, probed on every integer from input to four past the largest token code
		// (every local name starts with zz: token constants of the grammar have names like c, hi, out)
		zzlo, zzhi := 0, 0
		fmt.Sscan(input, &zzlo)
		for _, zzk := range []int{%(codes)s} { if zzk > zzhi { zzhi = zzk } }
		zzout := []string{}
		for zzc := zzlo; zzc <= zzhi+4; zzc++ { if zzv := translate(zzc); zzv != 0 { zzout = append(zzout, fmt.Sprint(zzc, "=", zzv)) } }
		return strings.Join(zzout, " ")
	case "tracen":
		// a traced parse during which another parse (traced as well) runs from inside an action
		f := strings.Split(input, ",")
		fmt.Sscan(f[2], &NestAtR)
		NestInput = f[1]
		NestResult = "-"
		IsTrace = true
		defer func() { IsTrace = false; NestAtR = -1 }()
		return RunShared(f[0])
	case "nestr":
		f := strings.Split(input, ",")
		fmt.Sscan(f[2], &NestAtR)
		NestInput = f[1]
		NestResult = "-"
		outer := RunShared(f[0])
		NestAtR = -1
		return outer + " ; " + NestResult
	case "nest":
		f := strings.Split(input, ",")
		fmt.Sscan(f[2], &NestAt)
		NestInput = f[1]
		NestResult = "-"
		outer := RunShared(f[0])
		NestAt = -1
		return outer + " ; " + NestResult
	}
	return "?"
}
'''
GO_GLOBAL = '''
func RunFresh(input string) string { return runOnce(func() *ValType { ParserInit(); return Parser(input) }) }
func RunShared(input string) string { return RunFresh(input) }
func runNested(input string) string {
	PushContex()
	defer PopContex()
	return runOnce(func() *ValType { ParserInit(); return Parser(input) })
}
'''
GO_OBJECT = '''
var sharedCtx = MakeParserContext()
func RunFresh(input string) string { return runOnce(func() *ValType { c := MakeParserContext(); return c.Parser(input) }) }
func RunShared(input string) string { return runOnce(func() *ValType { sharedCtx.ParserInit(); return sharedCtx.Parser(input) }) }
func runNested(input string) string { return runOnce(func() *ValType { c := MakeParserContext(); return c.Parser(input) }) }
'''

TS_EPI = '''
var Reds :number[] = [];
var Fetched = 0;
var Steps = 0;
var Errs :string[] = [];
const origError = console.error;
console.error = function(...a :any[]) { Errs.push(a.join(" ")) };
function GetToken(input :string, model:{ValType :ValType, pos :number}) :number {
	Fetched++;
	if (model.pos >= input.length) { return -1 }
	let zzc = input.charCodeAt(model.pos) - 97;
	model.pos++;
	if (zzc == 24) { throw new Error("LEXTHROW") }
	model.ValType = new ValType();
	let zzx = model.pos*31 + zzc + 1;
	switch (zzc) {
%(cases)s
	}
	if (zzc >= 20 && zzc <= 23) { return Math.max(0, ...[%(codes)s]) + (24 - zzc) }
	return 7777;
}
function RunFresh(input :string) :string {
	Reds = []; Fetched = 0; Errs = []; Steps = 0;
	initialize();
	try {
		let v = Parser(input);
		if (v == null) { return "N|" + Errs.join("/") + "|[" + Reds.join(" ") + "]|" + Fetched }
		return "A|" + v.%(starttag)s + "|[" + Reds.join(" ") + "]|" + Fetched
	} catch (e) { return "X|" + String(e).split("\\n")[0] + "|[" + Reds.join(" ") + "]|" + Fetched }
}
for (const job of %(jobs)s) {
	if (job[0] == "run") { console.log("run\\t" + job[1] + "\\t" + RunFresh(job[1])) }
	else if (job[0] == "hist") { console.log("hist\\t" + job[1] + "\\t" + job[1].split(",").map(RunFresh).join(" ; ")) }
	else if (job[0] == "rep") {
		let zzf = job[1].split(","), zzs = new Set<string>(), zz1 = "", zzl = "";
		for (let i = 0; i < parseInt(zzf[1]); i++) { zzl = RunFresh(zzf[0]); if (i == 0) { zz1 = zzl } zzs.add(zzl) }
		console.log("rep\\t" + job[1] + "\\t" + zz1 + " ; " + zzl + " ; " + zzs.size)
	}
	else if (job[0] == "xlate") {
		let zzo :string[] = [];
		const zzhi = Math.max(0, ...[%(codes)s]) + 4;
		for (let zzc = parseInt(job[1]); zzc <= zzhi; zzc++) { let zzv = translate(zzc); if (zzv != 0) { zzo.push(zzc + "=" + zzv) } }
		console.log("xlate\\t" + job[1] + "\\t" + zzo.join(" "))
	}
}
'''


def go_text(g, pkg, obj):
    cases = ''.join('\tcase %d:\n\t\tvalTy.%s = zzx\n\t\treturn %s\n' % (i, t['tag'], tok_expr(g, i, 'go')) for i, t in enumerate(g['terms']))
    epi = GO_EPI % dict(cases=cases, codes=', '.join(tok_expr(g, i, 'go') for i in range(len(g['terms']))) or '0', starttag=g['nonterms'][g['start']]['tag'], modefuncs=GO_OBJECT if obj else GO_GLOBAL)
    head = '%{\npackage ' + pkg + '\nimport "fmt"\nimport "strings"\n%}\n%union {\n v0 int\n v1 int\n v2 int\n zzseq int\n}\n'
    return head + decl_block(g, 'go') + '%%\n' + gram.render_rules(g, (lambda i, r: go_action(i, r, True)) if g.get('plain_actions') else go_action) + '%%\n' + epi


def ts_text(g, jobs):
    cases = ''.join('\tcase %d:\n\t\tmodel.ValType.%s = zzx;\n\t\treturn %s;\n' % (i, t['tag'], tok_expr(g, i, 'ts')) for i, t in enumerate(g['terms']))
    epi = TS_EPI % dict(cases=cases, codes=', '.join(tok_expr(g, i, 'ts') for i in range(len(g['terms']))) or '0', starttag=g['nonterms'][g['start']]['tag'], jobs=json.dumps(jobs))
    head = '%{\n"use strict";\n%}\n%union {\n v0 :number = 0;\n v1 :number = 0;\n v2 :number = 0;\n}\n'
    return head + decl_block(g, 'ts') + '%%\n' + gram.render_rules(g, (lambda i, r: ts_action(i, r, True)) if g.get('plain_actions') else ts_action) + '%%\n' + epi


def enc(inp):
    return ''.join(chr(97 + t) for t in inp)


def parse_result(s):
    """'A|v|[r ...]|f'  'E|msg|[..]|f'  'N|..|[..]|f'  'X|msg|[..]|f'  ->  dict"""
    f = s.split('|')
    kind = f[0]
    fetched = int(f[-1])
    reds = [int(x) for x in f[-2].strip('[]').split()]
    mid = '|'.join(f[1:-2])
    d = dict(kind=kind, fetched=fetched, reds=[x // 1000 for x in reds], redf=[x % 1000 for x in reds], msg=mid, raw=s)
    if kind == 'A':
        d['value'] = mid
    if 'STEPLIMIT' in mid:
        d['kind'] = 'L'
    if 'LEXTHROW' in mid:
        d['kind'] = 'T'        # the harness lexer gave up: user code threw in the middle of the parse
    return d


MAIN_GO = '''package main
import (
	"bufio"
	"fmt"
	"os"
	"strings"
%(imports)s
)
var reg = map[string]func(string, string) string{
%(reg)s
}
func main() {
	sc := bufio.NewScanner(os.Stdin)
	sc.Buffer(make([]byte, 1<<20), 1<<26)
	w := bufio.NewWriter(os.Stdout)
	defer w.Flush()
	for sc.Scan() {
		f := strings.SplitN(sc.Text(), "\\t", 3)
		fmt.Fprintln(w, "BEGIN\\t"+f[0]+"\\t"+f[1]+"\\t"+f[2])
		w.Flush()
		r := reg[f[0]](f[1], f[2])
		fmt.Fprintln(w, "END\\t"+r)
		w.Flush()
	}
}
'''


def run_i6(name, grammars, jobs, variants=ALL_VARIANTS, vet=False, race=False):
    """grammars: list of (gname, g) (already fix_tags'ed);  jobs: dict gname -> list of (mode, payload) with
    mode in run/trace/hist/nest and payload an encoded input string (hist: comma separated).
    Returns dict: gen[gname][variant] = dict(rc, out, err), compile_fail = {pkg: msg},
    res[gname][variant][(mode, payload)] = raw result string, trace[(gname, variant, payload)] = [lines]."""
    bindir = vlib.build_impl()
    work = os.path.join(vlib.WORK, 'i6-' + os.path.basename(bindir)[5:], name)
    shutil.rmtree(work, ignore_errors=True)
    os.makedirs(work)
    open(os.path.join(work, 'go.mod'), 'w').write('module probe\ngo 1.18\n')
    yaccgo = os.path.join(bindir, 'yaccgo')
    gen = {}
    tasks = []
    for gi, (gname, g) in enumerate(grammars):
        gen[gname] = {}
        for (vn, flags, obj) in GO_VARIANTS:
            if vn not in variants:
                continue
            pkg = 'p%d%s' % (gi, vn)
            d = os.path.join(work, pkg)
            os.makedirs(d)
            y = os.path.join(d, 'g.y')
            open(y, 'w').write(go_text(g, pkg, obj))
            # two of the four Go variants are generated together with the automaton diagram (-g): a side output that must not
            # change the parser
            extra = ['-g', os.path.join(d, 'graph.png')] if vn in ('gu', 'op') else []
            tasks.append((gname, vn, [yaccgo, 'generate', 'go'] + flags + extra + [y, os.path.join(d, 'p.go')]))
        if 'ts' in variants:
            tj = [[m, p] for (m, p) in jobs.get(gname, []) if m in ('run', 'hist', 'xlate', 'rep')]
            y = os.path.join(work, 'g%d.y' % gi)
            open(y, 'w').write(ts_text(g, tj))
            tasks.append((gname, 'ts', [yaccgo, 'generate', 'typescript', y, os.path.join(work, 'g%d.ts' % gi)]))

    def gen1(t):
        gname, vn, cmd = t
        try:
            r = subprocess.run(cmd, capture_output=True, text=True, timeout=180)
            return gname, vn, dict(rc=r.returncode, out=r.stdout, err=r.stderr[-2000:])
        except subprocess.TimeoutExpired:
            return gname, vn, dict(rc=None, out='', err='TIMEOUT')
    with cf.ThreadPoolExecutor(16) as ex:
        for gname, vn, r in ex.map(gen1, tasks):
            gen[gname][vn] = r
    # ---- Go: one module, one main
    pkgs = []
    for gi, (gname, g) in enumerate(grammars):
        for (vn, _, _) in GO_VARIANTS:
            if vn in variants and gen[gname].get(vn, {}).get('rc') == 0 and os.path.exists(os.path.join(work, 'p%d%s' % (gi, vn), 'p.go')):
                pkgs.append(('p%d%s' % (gi, vn), gname, vn))
    compile_fail = {}
    binpath = os.path.join(work, 'bin')
    for attempt in range(6):
        imports = ''.join('\t"probe/%s"\n' % p for (p, _, _) in pkgs if p not in compile_fail)
        reg = ''.join('\t"%s": %s.Run,\n' % (p, p) for (p, _, _) in pkgs if p not in compile_fail)
        open(os.path.join(work, 'main.go'), 'w').write(MAIN_GO % dict(imports=imports, reg=reg))
        cmd = ['go', 'build'] + (['-race'] if race else []) + ['-o', binpath, '.']
        r = subprocess.run(cmd, cwd=work, capture_output=True, text=True, env=vlib.GOENV)
        if r.returncode == 0:
            break
        failed = set(re.findall(r'(?m)^# probe/(\w+)', r.stderr)) | set(re.findall(r'(?m)^(p\d+\w\w)/p\.go', r.stderr)) | set(re.findall(r'(?m)^\./(p\d+\w\w)/', r.stderr))
        failed = {p for p in failed if p not in compile_fail}
        if not failed:
            raise RuntimeError('go build of the generated parsers failed without naming a package:\n' + r.stderr[-3000:])
        for p in failed:
            msgs = [l for l in r.stderr.splitlines() if p + '/' in l]
            compile_fail[p] = '\n'.join(msgs[:6])
    else:
        raise RuntimeError('go build of the generated parsers keeps failing')
    if vet:
        r = subprocess.run(['go', 'vet', './...'], cwd=work, capture_output=True, text=True, env=vlib.GOENV)
        vet_out = r.stderr
    else:
        vet_out = ''
    lines = []
    byname = {gname: gi for gi, (gname, _) in enumerate(grammars)}
    for (p, gname, vn) in pkgs:
        if p in compile_fail:
            continue
        for (m, payload) in jobs.get(gname, []):
            if m in ('nest', 'nestr', 'tracen') and vn not in ('op', 'ou', 'gp', 'gu'):
                continue
            lines.append('%s\t%s\t%s' % (p, m, payload))
    res = {gname: {vn: {} for vn in variants} for (gname, _) in grammars}
    trace = {}
    pk = {p: (gname, vn) for (p, gname, vn) in pkgs}
    if lines:
        r = subprocess.run([binpath], input='\n'.join(lines) + '\n', capture_output=True, text=True, timeout=900)
        cur = None
        buf = []
        for ln in r.stdout.splitlines():
            if ln.startswith('BEGIN\t'):
                f = ln.split('\t')
                cur = (f[1], f[2], f[3] if len(f) > 3 else '')
                buf = []
            elif ln.startswith('END\t') and cur is not None:
                gname, vn = pk[cur[0]]
                res[gname][vn][(cur[1], cur[2])] = ln[4:]
                if cur[1] == 'trace':
                    trace[(gname, vn, cur[2])] = buf
                elif cur[1] == 'tracen':
                    # the lines of the outer parse only: what the nested parse printed is cut out
                    outer, depth = [], 0
                    for bl in buf:
                        if bl == '#NEST-BEGIN':
                            depth += 1
                        elif bl == '#NEST-END':
                            depth -= 1
                        elif depth == 0:
                            outer.append(bl)
                    trace[(gname, vn, 'N:' + cur[2])] = outer
                cur = None
            else:
                buf.append(ln)
        if r.returncode != 0:
            res['__crash__'] = dict(rc=r.returncode, err=r.stderr[-3000:], at=cur)
    # ---- TypeScript
    ts_status = {}
    if 'ts' in variants:
        if vlib.NODE22 is None:
            ts_status['__node__'] = 'node >= 22 not found: TypeScript variant not covered'
        else:
            def ts1(gi_g):
                gi, (gname, g) = gi_g
                if gen[gname].get('ts', {}).get('rc') != 0:
                    return gname, None, 'generation failed'
                out = os.path.join(work, 'g%d.ts' % gi)
                try:
                    rr = subprocess.run([vlib.NODE22, '--experimental-strip-types', '--no-warnings', out], capture_output=True, text=True, timeout=900)      # all jobs of one grammar in one process: seconds when the machine is idle (every parse is under a reduction limit); the thorough tier on a loaded machine needed more than 60 s once
                except subprocess.TimeoutExpired:
                    return gname, None, 'TIMEOUT'
                if rr.returncode != 0:
                    return gname, rr.stdout, 'node exit %d: %s' % (rr.returncode, rr.stderr[-600:])
                return gname, rr.stdout, None
            with cf.ThreadPoolExecutor(12) as ex:
                for gname, out, err in ex.map(ts1, list(enumerate(grammars))):
                    if err:
                        ts_status[gname] = err
                    if out:
                        for ln in out.splitlines():
                            f = ln.split('\t')
                            if len(f) == 3:
                                res[gname]['ts'][(f[0], f[1])] = f[2]
    return dict(gen=gen, compile_fail={pk[p]: m for p, m in compile_fail.items()}, res=res, trace=trace, ts_status=ts_status,
                vet=vet_out, work=work)


if __name__ == '__main__':
    import random
    rnd = random.Random(int(sys.argv[1]) if len(sys.argv) > 1 else 1)
    n = int(sys.argv[2]) if len(sys.argv) > 2 else 20
    gs = [('r%d' % i, fix_tags(gram.random_usable(rnd, nT=rnd.randint(1, 3), nN=rnd.randint(1, 3)))) for i in range(n)]
    jobs = {}
    for gname, g in gs:
        jobs[gname] = [('run', enc(s)) for s in gram.all_strings(len(g['terms']), 3)] + [('run', 'z')]
        jobs[gname].append(('hist', 'a,b,,a'))
        jobs[gname].append(('trace', 'ab'))
        jobs[gname].append(('nest', 'ab,a,2'))
    import time
    t0 = time.time()
    out = run_i6('selftest', gs, jobs)
    print('time %.1f' % (time.time() - t0), 'compile_fail', out['compile_fail'], 'ts', out['ts_status'])
    g0 = gs[0][0]
    for vn in ALL_VARIANTS:
        print(vn, list(out['res'][g0][vn].items())[:4], list(out['res'][g0][vn].items())[-3:])
    print(out['trace'].get((g0, 'gp', 'ab')))
