#!/usr/bin/env python3
"""Writes /verif/MANIFEST.json from the check registry (tools/props.py) so that the manifest never
drifts from what ./check can actually run.  Run after adding or changing a property check."""
import json, os, subprocess, sys
sys.path.insert(0, os.path.dirname(os.path.abspath(__file__)))
import props, vlib

ALL = ['C%02d' % i for i in range(1, 20)]


def hook_commits():
    r = subprocess.run(['git', '-C', vlib.REPO, 'log', '--format=%H %s'], capture_output=True, text=True)
    return [l.split()[0] for l in r.stdout.splitlines() if 'verif hook' in l]


def main():
    checks = []
    for pid in ALL:
        spec = props.REGISTRY.get(pid)
        if not spec:
            continue
        checks.append(dict(
            property_id=pid,
            quick_cmd='./check %s --tier quick' % pid,
            thorough_cmd='./check %s --tier thorough' % pid,
            evidence_file='evidence/%s.json' % pid,
            replay_cmd_template='./check %s --replay {path}' % pid,
            engine='coq-model+correspondence',
            level_claimed=dict(category='proof', text=spec['level_text'], design_ref=spec.get('design_ref', 'DESIGN.md section 5.' + pid)),
            level_note=spec['level_note'],
            technique=spec['technique']))
    na = [dict(property_id=pid, reason=props.NOT_CLAIMED[pid]) for pid in ALL if pid not in props.REGISTRY]
    man = dict(
        version=1,
        setup_cmd='make -C /verif setup',
        hooks=dict(guard='verif', enable='go build -tags verif (harness module under /verif/harness with replace => /repo)',
                   baseline_off_cmd='cd /repo && GOFLAGS=-mod=mod GOPROXY=off GOSUMDB=off GOTOOLCHAIN=local go test -mod=mod -vet=off -count=1 ./...',
                   source_commits=hook_commits(), add_only=True),
        engines=[dict(name='coq-model+correspondence', path='coq/ (Coq 8.16.1 development), coq/extract/model_eval (extracted model), harness/ (Go, built from /repo with -tags verif), tools/ (python3 stdlib)',
                      serves_properties=[c['property_id'] for c in checks],
                      kind_free_text='machine-checked theorems about a hand-written Gallina model of yaccgo; the model is tied to /repo on every run by a correspondence check '
                                     '(extracted model vs the implementation on the same inputs) and by Coq-verified oracles run on the implementation\'s own outputs')],
        checks=checks,
        notes='Every check: (1) re-checks its theorem file with coqc (all .vo built by `make`, no -vos), (2) rebuilds harness and CLI from /repo\'s working tree, '
              '(3) runs the correspondence and the direct oracles, (4) prints VIOLATION/KNOWN-FINDING lines, writes evidence. See DESIGN.md sections 2 and 9.',
        not_applicable=na)
    open(os.path.join(vlib.VERIF, 'MANIFEST.json'), 'w').write(json.dumps(man, indent=1) + '\n')
    print('MANIFEST.json: %d checks, %d not claimed' % (len(checks), len(na)))


if __name__ == '__main__':
    main()
