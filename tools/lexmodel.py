#!/usr/bin/env python3
"""Token streams of the real lexer (hook VerifTokens: up to and including the first EOF or error token) against the
Coq lexer model Lexer.lex (extracted).  ASCII texts only: the Go lexer decodes UTF-8 and asks unicode.IsLetter."""
import os, sys
sys.path.insert(0, os.path.dirname(os.path.abspath(__file__)))
import vlib

VALUE_KINDS = {'Identifier', 'Number', 'CodeQuote', 'ActionQuote', 'UnionDirective', 'Charater', 'StringKind', 'ActionN'}


def model_tokens(texts):
    chunks = ['L t%d %s\n' % (i, (t if isinstance(t, bytes) else t.encode()).hex() or '-') for i, t in enumerate(texts)]
    lines = vlib.model_eval_chunks(chunks)
    out = {}
    for ln in lines:
        f = ln.split(' ')
        if f[0] != 'L':
            continue
        i = int(f[1][1:])
        if f[2] == 'tok':
            out.setdefault(i, []).append((f[3], bytes.fromhex(f[4]) if f[4] != '-' else b''))
        elif f[2] == 'tail':
            out.setdefault(i, [])
            if f[3] == 'error':
                out[i].append(('Error', b''))
    res = []
    for i in range(len(texts)):
        toks = []
        for (k, v) in out.get(i, []):
            toks.append((k, v))
            if k in ('Error', 'EOF'):
                break
        res.append(toks)
    return res


def impl_tokens(paths):
    dumps = vlib.run_dump(paths, flags=['-tokens'])
    res = []
    for d in dumps:
        toks = [(t['kind'], t['value'].encode('utf8', 'surrogateescape')) for t in (d.get('tokens') or [])]
        res.append(toks)
    return res


def diff_tokens(mt, it):
    """None or a description of the first difference."""
    for k, (a, b) in enumerate(zip(mt, it)):
        if a[0] != b[0]:
            return 'token %d: model %s %r, implementation %s %r' % (k, a[0], a[1][:30], b[0], b[1][:30])
        if a[0] in VALUE_KINDS and a[1] != b[1]:
            return 'token %d (%s): model value %r, implementation value %r' % (k, a[0], a[1][:60], b[1][:60])
    if len(mt) != len(it):
        return 'number of tokens up to the first EOF/error: model %d, implementation %d' % (len(mt), len(it))
    return None


def compare(ctx, texts, paths, label='lexer'):
    """Adds no-failing-input-found violations for differences; returns a summary dict."""
    idx = [i for i, t in enumerate(texts) if all((c if isinstance(c, int) else ord(c)) < 128 for c in t)]
    mt = model_tokens([texts[i] for i in idx])
    it = impl_tokens([paths[i] for i in idx])
    bad = 0
    ntok = 0
    for j, i in enumerate(idx):
        ntok += len(mt[j])
        if any(k == 'FUEL' for k, _ in mt[j]):
            ctx.violation('no-failing-input-found', '%s model ran out of fuel on %r' % (label, texts[i][-60:]), dict(text=texts[i] if isinstance(texts[i], str) else texts[i].decode('latin1')), interface='I1t')
            bad += 1
            continue
        d = diff_tokens(mt[j], it[j])
        if d:
            bad += 1
            if bad <= 3:
                t = texts[i] if isinstance(texts[i], str) else texts[i].decode('latin1')
                ctx.violation('no-failing-input-found', 'token streams of the lexer model and of the implementation differ: %s' % d,
                              dict(text=t, text_sha=vlib.sha(t), detail=d), interface='I1t')
    return dict(texts_compared=len(idx), tokens_compared=ntok, differences=bad)


if __name__ == '__main__':
    import random, front, gram

    class C:
        def __init__(self):
            self.v = []

        def violation(self, *a, **k):
            self.v.append(a)
    rnd = random.Random(1)
    work = os.path.join(vlib.WORK, 'lex-test')
    os.makedirs(work, exist_ok=True)
    texts, paths = [], []
    for i in range(200):
        sp = front.decorate(gram.random_usable(rnd, p_prec=0.4, p_lit=0.5), rnd)
        t = front.render(sp, rnd, rnd.choice(['plain', 'random', 'dense', 'lines']))
        b = t.encode()
        if i % 2:
            k = rnd.randrange(len(b))
            b = b[:k] + rnd.choice([b'$', b'$$', b'$1', b"'", b'"', b'/*', b'%', b'%x', b'{', b'}', b'\\', b'-', b'%union', b'%{', b'%}']) + b[k + rnd.randint(0, 3):]
        p = os.path.join(work, 'l%d.y' % i)
        open(p, 'wb').write(b)
        texts.append(b); paths.append(p)
    c = C()
    print(compare(c, texts, paths))
    for v in c.v[:5]:
        print(v[1])
