#!/usr/bin/env python3
"""Front-end checks: C10 (layout independence / faithful reading), C11 (token codes), C12 (usability)."""
import concurrent.futures as cf, os, random, re, shutil, subprocess, sys
sys.path.insert(0, os.path.dirname(os.path.abspath(__file__)))
import vlib, gram, front

TRICKY_NAMES = ['left_paren', 'right_paren', 'token_kind', 'type1', 'start_sym', 'prec2', 'union_a', 'nonassoc_x', 'precedence_lvl', 'tokens', 'lefty', 'typeid', 'startx', 'accept', 'end_', 'error', 'NUM', 'ID_2', '_u', 'x9']
ACTIONS = ['{ }', '{ x := 1; _ = x }', '{ if true { } else { } }', '{ /* c */ }', '{ // line\n }', '{ s := "str"; _ = s }', '{ a := []int{1, 2}; _ = a }', "{ r := 'x'; _ = r }", '{\n\t_ = 0\n}',
           # quotes that do not pair up inside an action (an apostrophe in a comment, a lone backquote): only braces delimit an action
           "{ // don't stop here\n }", '{ x := 7 % 3; _ = x }', '{ s := "100%d%%"; _ = s }', '{ /* %s %v %! %% */ }', "{ /* it's fine */ _ = 1 }", '{ /* say "hi */ }', '{ // a ` backquote\n }', "{ _ = 2 // can't\n }"]


def rename_tricky(g, rnd):
    """Gives some symbols names that start with directive words or look like other tokens."""
    pool = rnd.sample(TRICKY_NAMES, len(TRICKY_NAMES))
    used = set(t['name'] for t in g['terms']) | set(n['name'] for n in g['nonterms'])
    for t in g['terms']:
        if not t['lit'] and rnd.random() < 0.4 and pool:
            nm = pool.pop()
            if nm not in used:
                used.add(nm); t['name'] = nm
    for n in g['nonterms']:
        if rnd.random() < 0.3 and pool:
            nm = pool.pop()
            if nm not in used:
                used.add(nm); n['name'] = nm
    return g


def c10_specs(ctx):
    rnd = random.Random(ctx.seed * 9176 + 3)
    n = 150 if ctx.quick else 1500
    specs = []
    for k, g in gram.curated().items():
        specs.append(('c_' + k, front.decorate(g, rnd)))
    for i in range(n):
        kind = i % 5
        if kind == 0:
            g = gram.operator_grammar(rnd)
        elif kind == 1:
            g = gram.random_usable(rnd, nT=rnd.randint(2, 6), nN=rnd.randint(1, 4), p_lit=0.6, p_prec=0.5)
            lits = rnd.sample(front.LITPOOL, min(len(front.LITPOOL), len(g['terms'])))
            for t, l in zip(g['terms'], lits):
                if t['lit']:
                    t['lit'] = l
        else:
            g = gram.random_usable(rnd, nT=rnd.randint(1, 5), nN=rnd.randint(1, 5), p_prec=0.4, max_alts=4)
        g = rename_tricky(g, rnd)
        sp = front.decorate(g, rnd)
        for (lhs, alts) in sp['groups']:
            for a in alts:
                if a['action'] is not None and rnd.random() < 0.5:
                    a['action'] = rnd.choice(ACTIONS)
        if rnd.random() < 0.15:
            sp['epilogue'] = None
        elif rnd.random() < 0.2:
            # the section mark inside the epilogue: only the second %% of the file ends the rules
            sp['epilogue'] = (sp['epilogue'] or '') + '\n// 100%% sure\nvar pct = "%d%%\\n"\n/* %% */\n'
        if rnd.random() < 0.3:
            sp['prologue'] = '\npackage main\n// %token FAKE in the prologue { \n/* %% */\nimport "fmt"\n'
        if rnd.random() < 0.25:
            sp['prologue2'] = '\nvar helper2 = 2 // second block, after the union\n'
        if rnd.random() < 0.3:
            sp['union'] = '\n v0 int // { } balanced\n v1 int\n v2 int\n n struct { a int }\n'
        specs.append(('r%d' % i, sp))
    return specs


def run_C10(ctx):
    specs = c10_specs(ctx)
    rnd = random.Random(ctx.seed * 31 + 17)
    work = os.path.join(vlib.WORK, 'c10-%d' % os.getpid())
    shutil.rmtree(work, ignore_errors=True)
    os.makedirs(work)
    try:
        nlay = 6 if ctx.quick else 24
        cases, paths = [], []
        for si, (name, sp) in enumerate(specs):
            styles = ['plain', 'lines', 'dense', 'dense'] + ['random'] * (nlay - 4)
            for li, st in enumerate(styles):
                semis = None if li % 3 else bool(li % 2)
                text = front.render(sp, rnd, st, semis=semis)
                p = os.path.join(work, 's%d_%d.y' % (si, li))
                open(p, 'w').write(text)
                cases.append((si, li, st, text)); paths.append(p)
        res = front.run_front(paths)
        wants = [front.denote(sp) for (_, sp) in specs]
        first = {}
        tokdiffs = lex_correspondence(ctx, [c[3] for c in cases], paths)
        import parsemodel
        ctx.extra['parser_model'] = parsemodel.compare(ctx, [c[3] for c in cases], paths, dumps=[d for (d, _, _) in res], label='C10')
        for (si, li, st, text), p, (d, m, vd) in zip(cases, paths, res):
            name, sp = specs[si]
            ctx.evaluations += 1
            if '/*' in text or '//' in text:
                ctx.nontrivial.add((si, li))
            case = dict(spec=name, layout=st, grammar_text=text, grammar_sha=vlib.sha(text))
            if not d.get('ok'):
                ctx.violation('counterexample', 'spec %s, layout %s: the file is well formed but yaccgo refuses it: %s' % (name, st, (d.get('panic') or d.get('err') or ('timeout' if d.get('timeout') else d.get('crash', '?')))[:200]),
                              dict(case, observed=d.get('panic') or d.get('err') or 'timeout', expected='the grammar as written'), interface='I1')
                continue
            got = front.read_back(d)
            dd = front.compare_denotation(wants[si], got)
            if dd:
                ctx.violation('counterexample', 'spec %s, layout %s: the grammar yaccgo works on is not the one written: %s' % (name, st, '; '.join(dd[:3])),
                              dict(case, observed=dd[:6], expected='exactly the rules, symbols, tags, codes, precedences and verbatim sections of the file'), interface='I1')
            elif vd:
                ctx.violation('no-failing-input-found', 'spec %s, layout %s: implementation visitor and model differ on the implementation\'s AST: %s' % (name, st, '; '.join(vd[:3])), dict(case, detail=vd[:6]), interface='I1v')
            if si not in first:
                first[si] = (got, st, text)
            elif got != first[si][0] and not dd:
                ctx.violation('counterexample', 'spec %s: layouts %s and %s of the same specification are read differently' % (name, first[si][1], st),
                              dict(case, other_text=first[si][2]), interface='I1')
            if ctx.evaluations % 173 == 5:
                ctx.sample(dict(spec=name, layout=st, bytes=len(text), rules=len(got['rules']), tokens=len(got['tokens']), head=text[:160]))
        ctx.extra['emitted_sections'] = c10_outputs(ctx, specs, cases, paths, res, work, nlay)
        ctx.extra['specs'] = len(specs)
        ctx.extra['layouts_per_spec'] = nlay
        ctx.extra['lexer_model'] = tokdiffs
    finally:
        shutil.rmtree(work, ignore_errors=True)


def c10_outputs(ctx, specs, cases, paths, res, work, nlay):
    """What `generate` writes for two layouts of every specification: the prologue, the %union body and the epilogue the
    front end read appear in the output byte for byte and in that order, and the code of every action is what the model
    of the substitution (EmitAction.subst_action) gives for the action text that was read."""
    import genprops
    bindir = vlib.build_impl()
    yaccgo = os.path.join(bindir, 'yaccgo')
    pick = []
    for ci, ((si, li, st, text), p, (d, m, vd)) in enumerate(zip(cases, paths, res)):
        if d.get('ok') and (li == 0 or li == 1 + si % (nlay - 1)):
            pick.append((ci, 1 if (si + li) % 3 == 0 else 0))

    def gen(job):
        ci, lang = job
        o = os.path.join(work, 'o%d%s' % (ci, '.ts' if lang else '.go'))
        try:
            r = subprocess.run([yaccgo, 'generate', 'typescript' if lang else 'go', paths[ci], o], capture_output=True, text=True, timeout=60)
            return (r.returncode, (r.stderr or r.stdout)[-300:], o)
        except subprocess.TimeoutExpired:
            return (None, 'timeout', o)
    with cf.ThreadPoolExecutor(16) as ex:
        outs = list(ex.map(gen, pick))
    jobs, textof = [], {}
    nsec = 0
    for (ci, lang), (rc, msg, o) in zip(pick, outs):
        si, li, st, text = cases[ci]
        d = res[ci][0]
        name = specs[si][0]
        case = dict(spec=name, layout=st, grammar_text=text, grammar_sha=vlib.sha(text), target='typescript' if lang else 'go')
        ctx.evaluations += 1
        if rc != 0 or not os.path.exists(o):
            ctx.violation('counterexample', 'spec %s, layout %s: the front end reads the file but `generate %s` fails: %s' % (name, st, case['target'], msg),
                          dict(case, observed=msg), interface='I7')
            continue
        out = open(o).read()
        pos = -1
        for sec in ('code', 'union', 'epilogue'):
            body = d.get(sec) or ''
            if not body.strip():
                continue
            nsec += 1
            at = out.rfind(body) if sec == 'epilogue' else out.find(body, pos + 1)
            if at < 0 or at < pos:
                ctx.violation('counterexample', 'spec %s, layout %s (%s): the %s of the file is not carried into the generated file unchanged' % (name, st, case['target'], {'code': 'prologue', 'union': '%union body', 'epilogue': 'epilogue'}[sec]),
                              dict(case, section=sec, expected=body[:400]), interface='I7')
                break
            pos = at
        key = 'c%d' % ci
        jobs.append((key, lang, paths[ci], o)); textof[key] = text
    acts = genprops.action_code_jobs(ctx, jobs, lambda k, lang: textof.get(k, '')) if jobs else {}
    return dict(generated=len(pick), sections_found=nsec, actions=acts)


def lex_correspondence(ctx, texts, paths):
    """Token streams of the real lexer against the Coq lexer model (when the model is available)."""
    try:
        import lexmodel
    except ImportError:
        return dict(status='lexer model not built yet')
    return lexmodel.compare(ctx, texts, paths)


# ---------------------------------------------------------------- C11
def c11_specs(ctx):
    rnd = random.Random(ctx.seed * 4441 + 9)
    n = 250 if ctx.quick else 2500
    specs = []
    for i in range(n):
        nT = rnd.randint(3, 9)
        g = gram.random_usable(rnd, nT=nT, nN=rnd.randint(1, 3), p_lit=rnd.choice([0.0, 0.2, 0.5]), p_prec=0.4, max_alts=3)
        # explicit numbers of every flavour: small, equal to a literal's neighbourhood, > 255, negative, just above the auto range
        style = i % 6
        lits = [ord(t['lit']) for t in g['terms'] if t['lit']]
        top = max(lits + [2])
        for t in g['terms']:
            if t['lit']:
                continue
            r = rnd.random()
            if style == 0 and r < 0.5:
                t['num'] = rnd.choice([300, 301, 1000, 256, 257])
            elif style == 1 and r < 0.5:
                t['num'] = top + rnd.randint(1, nT + 1)            # inside the range the automatic numbering will walk through
            elif style == 2 and r < 0.4:
                t['num'] = rnd.choice([3, 4, 5, 10, 33, 64, 128, 255])
            elif style == 3 and r < 0.3:
                t['num'] = -rnd.randint(2, 50)
            elif style == 4 and r < 0.5:
                t['num'] = rnd.choice([top + 1, top + 2, top + 3, 100, 101, 102])
        seen = set(lits)
        for t in g['terms']:                                        # the property's hypothesis: explicit numbers are distinct
            if t.get('num') is not None:
                while t['num'] in seen or t['num'] in (0, -1):
                    t['num'] += 1
                seen.add(t['num'])
        specs.append(('d%d' % i, front.decorate(g, rnd, actions=False)))
    return specs


CONST_RE = re.compile(r'(?m)^const (\w+) = (-?\d+)\s*$')
CASE_RE = re.compile(r'case (-?\d+):\s*\n\s*conv = (\d+)')


def emitted(text):
    consts = [(n, int(v)) for (n, v) in CONST_RE.findall(text) if n not in ('ERROR_ACTION', 'ACCEPT_ACTION', 'NTERMINALS')]
    i = text.find('function translate') if 'function translate' in text else text.find('func translate')
    j = text.find('TraceTranslate', i) if i >= 0 else -1
    body = text[i:j] if i >= 0 and j > i else (text[i:i + 20000] if i >= 0 else '')
    cases = [(int(c), int(v)) for (c, v) in CASE_RE.findall(body)]
    return consts, cases


def translate_probes(ctx):
    """The compiled translate() of every variant (Go default, -u, -o, -o -u, TypeScript) of the generated-parser corpus, called on
    every integer from -6 to four past the largest token code: exactly the token codes map to their own symbols, -1 to the end marker,
    everything else to 0 (the error column)."""
    import props
    out = props.i6_shared(ctx)
    n = bad = 0
    for gname, byv in sorted(out['res'].items()):
        if gname.startswith('__'):
            continue
        d = out['dumps'].get(gname)
        if not d or not d.get('ok'):
            continue
        want = {s['value']: s['id'] for s in d['symbols'] if not s['nt'] and s['id'] >= 1}
        lo = -6
        hi = max([v for v in want] + [0]) + 4
        want = {c: i for c, i in want.items() if lo <= c <= hi}
        for vn, rs in sorted(byv.items()):
            raw = rs.get(('xlate', '-6'))
            if raw is None or raw == '?':
                continue
            n += 1
            ctx.evaluations += 1
            try:
                got = {int(a): int(b) for a, b in (x.split('=') for x in raw.split())}
            except ValueError:
                got = {'unreadable': raw[:80]}
            if got != want:
                bad += 1
                if bad <= 3:
                    extra = sorted((c, got[c]) for c in got if want.get(c) != got[c])[:5]
                    miss = sorted((c, want[c]) for c in want if c not in got)[:5]
                    ctx.violation('counterexample', 'grammar %s variant %s: translate() maps %s, the codes of the terminals are %s (wrong or extra: %s, missing: %s)'
                                  % (gname, vn, sorted(got.items())[:8], sorted(want.items())[:8], extra, miss),
                                  props.case_of(out, gname, variant=vn, observed=sorted(got.items()), expected=sorted(want.items())), interface='I7')
    return dict(variants_probed=n, differing=bad)


def run_C11(ctx):
    bindir = vlib.build_impl()
    yaccgo = os.path.join(bindir, 'yaccgo')
    specs = c11_specs(ctx)
    rnd = random.Random(ctx.seed + 5)
    work = os.path.join(vlib.WORK, 'c11-%d' % os.getpid())
    shutil.rmtree(work, ignore_errors=True)
    os.makedirs(work)
    try:
        paths, texts = [], []
        for si, (name, sp) in enumerate(specs):
            text = front.render(sp, rnd, rnd.choice(['plain', 'random', 'lines']))
            p = os.path.join(work, 'd%d.y' % si)
            open(p, 'w').write(text)
            paths.append(p); texts.append(text)
        res = front.run_front(paths)

        def gen(si):
            outs = {}
            for lang, args, ext in (('go', ['generate', 'go'], '.go'), ('ts', ['generate', 'typescript'], '.ts')):
                o = os.path.join(work, 'd%d%s' % (si, ext))
                r = subprocess.run([yaccgo] + args + [paths[si], o], capture_output=True, text=True, timeout=30)
                outs[lang] = (r.returncode, open(o).read() if os.path.exists(o) else '', r.stderr[-300:])
            return si, outs
        with cf.ThreadPoolExecutor(16) as ex:
            gens = dict(ex.map(gen, range(len(specs))))
        vc_jobs = []
        for si, ((name, sp), text, (d, m, vd)) in enumerate(zip(specs, texts, res)):
            ctx.evaluations += 1
            case = dict(spec=name, grammar_text=text, grammar_sha=vlib.sha(text))
            if not d.get('ok'):
                ctx.violation('counterexample', 'declaration mix %s is well formed but yaccgo refuses it: %s' % (name, (d.get('panic') or d.get('err') or 'timeout')[:200]), case, interface='I1')
                continue
            want, got = front.denote(sp), front.read_back(d)
            fixed = [t for t in want['tokens'].values() if t['code'] is not None]
            autos = [n for n, t in want['tokens'].items() if t['code'] is None]
            if autos and any(not t['lit'] for t in fixed):
                ctx.nontrivial.add(name)
            bad = front.check_codes(want, got)
            # the verified checker (Front.valid_codes, extracted) on the implementation's own AST and final table
            decl_pairs = [(i['name'], i['value']) for line in d['ast']['tokens'] for i in line]
            final_pairs = [(i['name'], i['value']) for i in d['idents'] if i['typ'] == 1]
            vc_jobs.append((si, name, case, 'C c%d %d %s %d %s\n' % (si, len(decl_pairs), ' '.join('%s %d' % (front.hx(n), v) for n, v in decl_pairs),
                                                                   len(final_pairs), ' '.join('%s %d' % (front.hx(n), v) for n, v in final_pairs)), bool(bad)))
            for b in bad[:2]:
                ctx.violation('counterexample', 'declaration mix %s: %s' % (name, b), dict(case, observed=b, codes={n: g['code'] for n, g in got['tokens'].items()}), interface='I1c')
            if vd and not bad:
                ctx.violation('no-failing-input-found', 'declaration mix %s: implementation visitor and model differ: %s' % (name, '; '.join(vd[:3])), dict(case, detail=vd[:6]), interface='I1v')
            # I7: constants and translate of both generated files
            terms = {s['value']: s['id'] for s in d['symbols'] if not s['nt']}
            named = sorted((n, t['code']) for n, t in got['tokens'].items() if not n.startswith('$operator'))
            for lang in ('go', 'ts'):
                rc, out, err = gens[si][lang]
                if rc != 0:
                    ctx.violation('counterexample', 'declaration mix %s: `generate %s` fails: %s' % (name, lang, err), dict(case, target=lang), interface='I7')
                    continue
                consts, cases = emitted(out)
                if sorted(consts) != named:
                    ctx.violation('counterexample', 'declaration mix %s (%s): emitted token constants %s differ from the named tokens and their codes %s' % (name, lang, sorted(consts)[:8], named[:8]),
                                  dict(case, target=lang, observed=sorted(consts), expected=named), interface='I7')
                cm = {}
                dup = [c for c, _ in cases if c in cm or cm.update({c: 1})]
                tr = dict(cases)
                if dup:
                    ctx.violation('counterexample', 'declaration mix %s (%s): translate has the case label %s twice' % (name, lang, dup[0]), dict(case, target=lang, observed=cases), interface='I7')
                elif tr != terms:
                    ctx.violation('counterexample', 'declaration mix %s (%s): translate maps codes to symbols as %s, the grammar\'s terminals are %s' % (name, lang, sorted(tr.items())[:10], sorted(terms.items())[:10]),
                                  dict(case, target=lang, observed=sorted(tr.items()), expected=sorted(terms.items())), interface='I7')
                elif tr.get(-1) != 1:
                    ctx.violation('counterexample', 'declaration mix %s (%s): translate does not map -1 to the end marker' % (name, lang), dict(case, target=lang), interface='I7')
            if ctx.evaluations % 17 == 3:
                ctx.sample(dict(spec=name, codes={n: g['code'] for n, g in list(got['tokens'].items())[:6]}, fixed=len(fixed), auto=len(autos)))
        verdicts = {}
        for ln in vlib.model_eval(''.join(j[3] for j in vc_jobs)) if vc_jobs else []:
            f = ln.split()
            if f and f[0] == 'C':
                verdicts[f[1]] = f[2]
        for (si, name, case, _, pybad) in vc_jobs:
            v = verdicts.get('c%d' % si)
            if v == 'bad' and not pybad:
                ctx.violation('counterexample', 'declaration mix %s: the implementation\'s token codes fail the verified checker valid_codes' % name, case, interface='I1c')
            elif v != 'bad' and pybad:
                ctx.violation('no-failing-input-found', 'declaration mix %s: python mirror and verified checker disagree (%s)' % (name, v), case, interface='I1c')
        ctx.extra['translate_probes'] = translate_probes(ctx)
        ctx.extra['verified_checker_runs'] = len(vc_jobs)
        ctx.extra['specs'] = len(specs)
    finally:
        shutil.rmtree(work, ignore_errors=True)


# ---------------------------------------------------------------- C12
def plant(g, rnd, kind):
    """Plants one defect; returns (grammar, expected verdict class, description)."""
    nts = g['nonterms']
    nN = len(nts)
    if kind == 'ok':
        return g, None, 'usable grammar'
    if kind == 'undefined_rhs':
        r = rnd.choice(g['rules'])
        nts.append(dict(name='undef%d' % nN, tag=''))
        r['rhs'].insert(rnd.randint(0, len(r['rhs'])), ('n', nN))
        r['coef'] = [1] * len(r['rhs'])
        return g, 'undefined', 'undefined symbol undef%d in the right-hand side of a rule of %s' % (nN, nts[r['lhs']]['name'])
    if kind in ('unprod_left', 'unprod_right', 'unprod_mutual', 'unprod_deep', 'unprod_unreachable', 'unprod_start'):
        a = nN
        # the name of yaccgo's own start symbol is an ordinary name for a user nonterminal (and the default start symbol)
        nm = 'start' if (rnd.random() < 0.3 and all(n['name'] != 'start' for n in nts)) else 'loop%d' % a
        nts.append(dict(name=nm, tag=''))
        if nm == 'start' and kind == 'unprod_start' and rnd.random() < 0.5:
            g['implicit_start'] = True
        t0 = ('t', rnd.randrange(len(g['terms'])))
        if kind == 'unprod_left':
            g['rules'].append(dict(lhs=a, rhs=[('n', a), t0], prec=None, c=0, coef=[1, 1]))
        elif kind == 'unprod_right':
            g['rules'].append(dict(lhs=a, rhs=[t0, ('n', a)], prec=None, c=0, coef=[1, 1]))
        elif kind == 'unprod_mutual':
            b = a + 1
            nts.append(dict(name='loop%d' % b, tag=''))
            g['rules'].append(dict(lhs=a, rhs=[('n', b)], prec=None, c=0, coef=[1]))
            g['rules'].append(dict(lhs=b, rhs=[t0, ('n', a), t0], prec=None, c=0, coef=[1, 1, 1]))
        elif kind == 'unprod_deep':
            # productive only if the base case existed: a -> a a | a t
            g['rules'].append(dict(lhs=a, rhs=[('n', a), ('n', a)], prec=None, c=0, coef=[1, 1]))
            g['rules'].append(dict(lhs=a, rhs=[('n', a), t0], prec=None, c=0, coef=[1, 1]))
        elif kind == 'unprod_unreachable':
            g['rules'].append(dict(lhs=a, rhs=[('n', a)], prec=None, c=0, coef=[1]))
            return g, 'unproductive', 'unreachable nonterminal loop%d : loop%d' % (a, a)
        elif kind == 'unprod_start':
            g['rules'].append(dict(lhs=a, rhs=[('n', a), t0], prec=None, c=0, coef=[1, 1]))
            g['start'] = a
            return g, 'unproductive', 'the start symbol loop%d derives no terminal string' % a
        # make it reachable somewhere, possibly deep
        r = rnd.choice(g['rules'][:-1] if len(g['rules']) > 1 else g['rules'])
        if r['lhs'] < nN:
            g['rules'].append(dict(lhs=r['lhs'], rhs=list(r['rhs']) + [('n', a)], prec=None, c=0, coef=[1] * (len(r['rhs']) + 1)))
        return g, 'unproductive', 'nonterminal loop%d cannot derive a terminal string (%s)' % (a, kind)
    if kind == 'epsilon_productive':
        # productive only through an empty rule: must be accepted
        a = nN
        nts.append(dict(name='eps%d' % a, tag=''))
        g['rules'].append(dict(lhs=a, rhs=[], prec=None, c=0, coef=[]))
        g['rules'].append(dict(lhs=a, rhs=[('n', a), ('n', a)], prec=None, c=0, coef=[1, 1]))
        r = rnd.choice(g['rules'][:-2])
        g['rules'].append(dict(lhs=r['lhs'], rhs=[('n', a)] + list(r['rhs']), prec=None, c=0, coef=[1] * (len(r['rhs']) + 1)))
        return g, None, 'nonterminal productive only through an empty rule'
    if kind == 'chain_productive':
        # productivity that needs several rounds, listed in the unfavourable order
        base = nN
        k = rnd.randint(3, 5)
        for j in range(k):
            nts.append(dict(name='ch%d' % (base + j), tag=''))
        for j in range(k - 1):
            g['rules'].append(dict(lhs=base + j, rhs=[('n', base + j + 1)], prec=None, c=0, coef=[1]))
        g['rules'].append(dict(lhs=base + k - 1, rhs=[('t', 0)], prec=None, c=0, coef=[1]))
        r = rnd.choice(g['rules'][:-k])
        g['rules'].append(dict(lhs=r['lhs'], rhs=list(r['rhs']) + [('n', base)], prec=None, c=0, coef=[1] * (len(r['rhs']) + 1)))
        return g, None, 'productivity through a chain of %d unit rules' % k
    raise ValueError(kind)


KINDS = ['ok', 'ghost_first_used', 'undefined_rhs', 'unprod_left', 'unprod_right', 'unprod_mutual', 'unprod_deep', 'unprod_unreachable', 'unprod_start', 'epsilon_productive', 'chain_productive', 'type_without_rule', 'start_without_rule']


def run_C12(ctx):
    rnd = random.Random(ctx.seed * 6007 + 1)
    n = 60 if ctx.quick else 500
    work = os.path.join(vlib.WORK, 'c12-%d' % os.getpid())
    shutil.rmtree(work, ignore_errors=True)
    os.makedirs(work)
    try:
        cases, paths = [], []
        for i in range(n):
            for kind in KINDS:
                g = gram.random_usable(rnd, nT=rnd.randint(1, 4), nN=rnd.randint(1, 4), p_term=rnd.choice([0.4, 0.6]), max_alts=3, p_prec=rnd.choice([0.0, 0.6]))
                desc = None
                if kind == 'type_without_rule':
                    sp = front.decorate(g, rnd, actions=False)
                    sp['decls'].append(('type', 'v0', ['ghost']))
                    want, desc = 'norule', '%type names ghost, which has no rule'
                elif kind == 'ghost_first_used':
                    # a %type'd name without rule that sorts first among the nonterminals, used next to productive alternatives
                    sp = front.decorate(g, rnd, actions=False)
                    ghost = rnd.choice(['AAghost', 'A0', 'Ba'])
                    sp['decls'].append(('type', 'v0', [ghost]))
                    lhs0, alts0 = sp['groups'][rnd.randrange(len(sp['groups']))]
                    alts0.append(dict(rhs=list(alts0[0]['rhs']) + [('id', ghost)], prec=None, action=None))
                    if rnd.random() < 0.7 and not any(d[0] == 'token' and any(it[1] == -1 for it in d[2]) for d in sp['decls']):
                        sp['decls'].insert(0, ('token', None, [(('id', 'ENDMARK'), -1, None)]))
                    want, desc = 'norule', '%%type names %s, used in a rule but without a rule of its own' % ghost
                elif kind == 'start_without_rule':
                    sp = front.decorate(g, rnd, actions=False)
                    sp['decls'] = [d for d in sp['decls'] if d[0] != 'start'] + [('start', 'nowhere')]
                    want, desc = 'norule', 'the start symbol nowhere has no rule'
                else:
                    g, want, desc = plant(g, rnd, kind)
                    sp = front.decorate(g, rnd, actions=False)
                text = front.render(sp, rnd, rnd.choice(['plain', 'random']))
                p = os.path.join(work, 'u%d_%s.y' % (i, kind))
                open(p, 'w').write(text)
                cases.append((kind, want, desc, text)); paths.append(p)
        res = front.run_front(paths)
        hist = {}
        for (kind, want, desc, text), p, (d, m, vd) in zip(cases, paths, res):
            ctx.evaluations += 1
            got = front.impl_error_class(d) if not d.get('ok') else None
            if d.get('timeout'):
                got = 'timeout'
            hist[(kind, got)] = hist.get((kind, got), 0) + 1
            if want is not None:
                ctx.nontrivial.add(vlib.sha(text))
            case = dict(defect=kind, grammar_text=text, grammar_sha=vlib.sha(text), expected=want or 'processed', observed=got or 'processed')
            refuse = {'undefined': ('undefined',), 'unproductive': ('unproductive',), 'norule': ('norule',)}
            if want is None and got is not None:
                ctx.violation('counterexample', 'usable grammar (%s) is refused: %s' % (desc, got), case, interface='I1e')
            elif want is not None and got is None:
                ctx.violation('counterexample', 'unusable grammar is processed without complaint: %s' % desc, case, interface='I1e')
            elif want is not None and got not in refuse[want]:
                ctx.violation('counterexample', 'unusable grammar (%s) is refused, but not for that reason: %s' % (desc, got), case, interface='I1e')
            elif vd:
                ctx.violation('no-failing-input-found', 'implementation and model disagree on the implementation\'s AST: %s' % '; '.join(vd[:3]), dict(case, detail=vd[:6]), interface='I1v')
            if ctx.evaluations % 29 == 7:
                ctx.sample(dict(kind=kind, expected=want or 'processed', observed=got or 'processed', why=desc))
        ctx.extra['verdicts'] = {'%s -> %s' % (k, v or 'processed'): c for (k, v), c in sorted(hist.items(), key=str)}
        # the built-in limit (C12_state_limit: refusal exactly when the LR(0) collection has 2000 states or more): the family
        # list : list item | item ; item : T_i U_j has nt*nu + nt + 4 states - 1999 states must be processed, 2000 refused
        lim = []
        for (nt, nu, want) in ((35, 56, 'processed'), (4, 498, 'toomany')):
            g = gram.big_grammar(random.Random(1), nt=nt, nu=nu)
            p = os.path.join(work, 'limit_%d_%d.y' % (nt, nu))
            open(p, 'w').write(gram.render_plain(g))
            lim.append((nt, nu, want, p))
        for (nt, nu, want, p), d in zip(lim, vlib.run_dump([x[3] for x in lim], timeout=300)):
            ctx.evaluations += 1
            msg = (d.get('panic') or d.get('err') or '')
            got = 'processed' if d.get('ok') else ('toomany' if 'too man' in msg else 'refused: ' + msg[:80])
            nstates = len(d.get('lr0') or [])
            if got != want or (want == 'processed' and nstates != nt * nu + nt + 4):
                ctx.violation('counterexample', 'a grammar whose LR(0) collection has %d states (item : T_i U_j, %d x %d pairs) is %s (%d states delivered); the limit is: fewer than 2000 states are processed, 2000 or more refused'
                              % (nt * nu + nt + 4, nt, nu, got, nstates), dict(defect='state_limit', grammar_text=open(p).read()[:20000], expected=want, observed=got), interface='I1e')
        ctx.extra['state_limit'] = 'a 1999-state grammar is processed, a 2000-state grammar is refused with "too many states"'
        # through the command line (the file is read there): the part of the file that decides the verdict stands after a very long line
        yaccgo = os.path.join(vlib.build_impl(), 'yaccgo')
        head = '%{\npackage main\n%}\n%union {\n v0 int\n}\n%token <v0> NUM\n%type <v0> e t\n'
        tail = '%%\nfunc GetToken(input string, valTy *ValType, pos *int) int { return -1 }\n'
        ncli = 0
        for size in (200, 5000, 70000, 140000):
            filler = '// ' + 'generated data, ' * (size // 16) + '\n'
            for (name, rules, want) in (('usable', "e : e '+' t | t ;\nt : NUM ;\n", None),
                                        ('undefined', "e : e '+' t | t ;\nt : NUM ghost ;\n", 'undefined'),
                                        ('unproductive', "e : e '+' t ;\nt : NUM ;\n", 'unproductive')):
                for where in ('declarations', 'rules'):
                    text = (head + filler + '%start e\n%%\n' + rules + tail) if where == 'declarations' else (head + '%start e\n%%\n' + filler + rules + tail)
                    src = os.path.join(work, 'cli_%s_%d_%s.y' % (name, size, where))
                    open(src, 'w').write(text)
                    try:
                        r = subprocess.run([yaccgo, 'generate', 'go', src, src + '.go'], capture_output=True, text=True, timeout=60)
                        got = front.impl_error_class(dict(panic=r.stderr, err=r.stdout)) if r.returncode != 0 else None
                    except subprocess.TimeoutExpired:
                        got = 'timeout'
                    ctx.evaluations += 1
                    ncli += 1
                    if got != want:
                        ctx.violation('counterexample', 'through the command line: the %s grammar with a comment line of %d bytes in the %s is %s, expected %s'
                                      % (name, size, where, got or 'processed', want or 'processed'),
                                      dict(defect='cli_' + name, grammar_text=text[:3000] + ('...' if len(text) > 3000 else ''), long_line_bytes=size, expected=want or 'processed', observed=got or 'processed'), interface='I1e')
        ctx.extra['through_the_cli'] = ncli
    finally:
        shutil.rmtree(work, ignore_errors=True)
