#!/usr/bin/env python3
"""Per-property checks.  Each run(ctx) performs the correspondence between the Coq model and the
implementation on the interfaces the property depends on and the direct oracles, and records
violations (counterexample or no-failing-input-found)."""
import hashlib, itertools, json, os, pickle, random, re, shutil, subprocess, sys, time
sys.path.insert(0, os.path.dirname(os.path.abspath(__file__)))
import vlib, gram, genrun, backend, i6check, cliprops, frontprops, genprops

TRUSTED_BASE = [
    'Coq 8.16.1 kernel (coqc; coqchk in the thorough tier); vm_compute in Examples; no native_compute',
    'extraction (ExtrOcamlBasic only; nat/positive/Z kept as extracted inductives; no Extract Constant/Inductive of our own) + OCaml 4.13.1',
    'coq/extract/driver.ml (text <-> Coq values), tools/*.py (generators, comparison), harness/cmd/* (Go, built from /repo with -tags verif)',
    'hand-written model tied to the code by the correspondence run of this check (see coverage.rule)',
]


class Ctx:
    def __init__(self, pid, tier, seed, replay=None):
        self.pid, self.tier, self.seed, self.replay = pid, tier, seed, replay
        self.violations = []
        self.evaluations = 0
        self.nontrivial = set()
        self.samples = []
        self.extra = {}
        self.rnd = random.Random(seed * 1000003 + int(hashlib.sha256(pid.encode()).hexdigest()[:6], 16))

    def violation(self, kind, what, case, interface=None):
        self.violations.append(dict(kind=kind, what=what, case=case, interface=interface))

    def sample(self, s):
        if len(self.samples) < 8:
            self.samples.append(s)

    @property
    def quick(self):
        return self.tier != 'thorough'


def coqchk(prop_files):
    mods = ['YG.' + f[:-2] for f in prop_files]
    t0 = time.time()
    with vlib.Lock('coq'):
        r = vlib.sh(['coqchk', '-silent', '-o', '-Q', os.path.join(vlib.COQ, 'theories'), 'YG'] + mods, timeout=7200, cwd=vlib.COQ)
    out = r.stdout + r.stderr
    ax = re.findall(r'(?s)\* Axioms:\s*(.*?)(?:\n\s*\n|\Z)', out)
    return dict(ok=r.returncode == 0, axioms=[a.strip() for a in ax], wall_s=round(time.time() - t0, 1), log=out[-1500:])


def pure_crosscheck(ctx):
    """Thorough tier: the fast model binary (nat as OCaml int) against the binary extracted with ExtrOcamlBasic only, on the
    curated grammars (tables from the text), on lexer/parser inputs and on the resolution grid: outputs must be identical."""
    import front
    rnd = random.Random(ctx.seed + 99)
    text = ['Q\n']
    for k, g in gram.curated().items():
        t = gram.render_plain(g)
        text.append('E %s %s\n' % (k, t.encode().hex()))
        text.append('L l%s %s\n' % (k, t.encode().hex()))
        text.append('Y y%s %s\n' % (k, t.encode().hex()))
    for i in range(40):
        sp = front.decorate(gram.random_usable(rnd, p_prec=0.4, p_lit=0.4), rnd)
        t = front.render(sp, rnd, 'random')
        text.append('E r%d %s\n' % (i, t.encode().hex()))
    inp = ''.join(text)
    fast = vlib.sh([os.path.join(vlib.COQ, 'extract', 'model_eval')], input=inp, timeout=3600, preexec_fn=vlib._big_stack)
    pure = vlib.sh([os.path.join(vlib.COQ, 'extract', 'model_eval_pure')], input=inp, timeout=3600, preexec_fn=vlib._big_stack)
    same = fast.stdout == pure.stdout and fast.returncode == 0 and pure.returncode == 0
    if not same:
        fl, pl = fast.stdout.splitlines(), pure.stdout.splitlines()
        k = next((i for i in range(min(len(fl), len(pl))) if fl[i] != pl[i]), min(len(fl), len(pl)))
        ctx.violation('no-failing-input-found', 'the fast model binary (ExtrOcamlNatInt) and the pure one (ExtrOcamlBasic) differ at output line %d: %r vs %r %s'
                      % (k, fl[k][:120] if k < len(fl) else None, pl[k][:120] if k < len(pl) else None, (fast.stderr + pure.stderr)[-200:]), {}, interface='extraction')
    return dict(commands=len(text), output_lines=len(fast.stdout.splitlines()), identical=same)


def tools_hash():
    h = hashlib.sha256()
    d = os.path.dirname(os.path.abspath(__file__))
    for f in sorted(os.listdir(d)):
        if f.endswith('.py'):
            h.update(open(os.path.join(d, f), 'rb').read())
    h.update(open(os.path.join(vlib.COQ, 'extract', 'model_eval'), 'rb').read() if os.path.exists(os.path.join(vlib.COQ, 'extract', 'model_eval')) else b'')
    return h.hexdigest()[:10]


def cached(name, seed, tier, fn):
    """Disk cache for work shared by several properties, keyed by the source state of /repo, the
    harness, the tools, the model binary, the seed and the tier."""
    bindir = vlib.build_impl()
    d = os.path.join(vlib.WORK, 'i6-' + os.path.basename(bindir)[5:])
    os.makedirs(d, exist_ok=True)
    p = os.path.join(d, '%s-%s-%d-%s.pickle' % (name, tools_hash(), seed, tier))
    with vlib.Lock('cache-' + name):
        if os.path.exists(p):
            try:
                return pickle.load(open(p, 'rb'))
            except Exception:
                pass
        v = fn()
        pickle.dump(v, open(p + '.tmp', 'wb'))
        os.replace(p + '.tmp', p)
        return v


# ------------------------------------------------------------------ corpora
def backend_corpus(seed, tier):
    rnd = random.Random(seed * 7919 + 1)
    gs = [('c_' + k, g) for k, g in gram.curated().items()]
    for i in range(8 if tier == 'quick' else 80):
        gs.append(('tp%d' % i, gram.two_path_grammar(rnd)))
    for i in range(8 if tier == 'quick' else 80):
        gs.append(('lay%d' % i, gram.layered_expr(rnd)))
    for i in range(4 if tier == 'quick' else 40):
        gs.append(('ring%d' % i, gram.ring_grammar(rnd, nullable=bool(i % 2))))
    for i in range(1 if tier == 'quick' else 3):
        gs.append(('big%d' % i, gram.big_grammar(rnd)))
    for i in range(1 if tier == 'quick' else 3):
        gs.append(('wide%d' % i, gram.wide_grammar(rnd, nt=rnd.randint(56, 62))))
    for i in range(6 if tier == 'quick' else 40):
        gs.append(('mark%d' % i, gram.marker_grammar(rnd)))
    for i in range(6 if tier == 'quick' else 40):
        gs.append(('rrp%d' % i, gram.rr_prec_grammar(rnd)))
    for i in range(4 if tier == 'quick' else 24):
        gs.append(('nash%d' % i, gram.nonassoc_shared_grammar(rnd)))
    for i in range(1 if tier == 'quick' else 2):
        gs.append(('vlong%d' % i, gram.very_long_rule_grammar(rnd, odd=bool(i % 2))))
    for i in range(1 if tier == 'quick' else 4):
        gs.append(('wop%d' % i, gram.wide_operator_grammar(rnd, nfill=rnd.randint(60, 66), nops=rnd.randint(5, 8))))
    n = 300 if tier == 'quick' else 3000
    for i in range(n):
        kind = i % 4
        if kind == 0:
            g = gram.random_usable(rnd, p_prec=0.5)
        elif kind == 1:
            g = gram.random_usable(rnd, nT=rnd.randint(1, 3), nN=rnd.randint(2, 5), p_term=0.35, max_alts=3)   # nullable / nonterminal heavy
        elif kind == 2:
            g = gram.random_usable(rnd, nT=rnd.randint(2, 6), nN=rnd.randint(1, 3), p_term=0.6, max_alts=4, p_prec=0.3)
        else:
            g = gram.operator_grammar(rnd)
        gs.append(('r%d' % i, g))
    return gs


def backend_shared(ctx):
    def compute():
        gs = backend_corpus(ctx.seed, ctx.tier)
        work = os.path.join(vlib.WORK, 'be-%d-%s' % (ctx.seed, ctx.tier))
        shutil.rmtree(work, ignore_errors=True)
        ents = backend.write_corpus(work, gs)
        res = backend.run(ents)
        texts = {name: open(p).read() for (name, p, g) in ents}
        shutil.rmtree(work, ignore_errors=True)
        return dict(res=res, texts=texts, grammars=dict(gs))
    return cached('backend', ctx.seed, ctx.tier, compute)


def i6_corpus(seed, tier):
    rnd = random.Random(seed * 104729 + 7)
    gs = [('c_' + k, genrun.fix_tags(g)) for k, g in gram.curated().items()]
    gs += [('e_' + k, genrun.fix_tags(g)) for k, g in gram.edge_grammars().items()]
    n = 100 if tier == 'quick' else 600
    for i in range(n):
        if i % 5 == 4:
            g = gram.operator_grammar(rnd, nlev=rnd.randint(1, 3))
        elif i % 5 == 3:
            g = gram.random_usable(rnd, nT=rnd.randint(1, 3), nN=rnd.randint(2, 4), p_term=0.4, max_len=4)
        else:
            g = gram.random_usable(rnd, nT=rnd.randint(1, 3), nN=rnd.randint(1, 3), p_prec=0.3)
        gs.append(('r%d' % i, genrun.fix_tags(g)))
    for i in range(4 if tier == 'quick' else 30):
        gs.append(('lay%d' % i, genrun.fix_tags(gram.layered_expr(rnd, nlev=rnd.randint(1, 2)))))
    for i in range(2 if tier == 'quick' else 10):
        gs.append(('long%d' % i, genrun.fix_tags(gram.long_rule_grammar(rnd))))
    for i in range(1 if tier == 'quick' else 3):
        gs.append(('big%d' % i, genrun.fix_tags(gram.big_grammar(rnd, square=True))))
    for i in range(3 if tier == 'quick' else 15):
        gs.append(('dup%d' % i, genrun.fix_tags(gram.dup_rule_grammar(rnd))))
    for i in range(3 if tier == 'quick' else 12):
        gs.append(('opt%d' % i, genrun.fix_tags(gram.optional_grammar(rnd))))
    for i in range(10 if tier == 'quick' else 60):
        g = gram.random_usable(rnd, nT=rnd.randint(2, 4), nN=rnd.randint(1, 3), max_alts=4, p_term=0.7)
        gs.append(('tw%d' % i, gram.twin_actions(genrun.fix_tags(g), rnd)))
    jobs = {}
    for gname, g in gs:
        nT = len(g['terms'])
        budget = 340 if tier == 'quick' else 1500
        L = 1
        while sum(nT ** k for k in range(L + 2)) <= budget and L < 7:
            L += 1
        if nT > 8:
            L = 2 if g.get('big') else 1
        ins = [genrun.enc(s) for s in gram.all_strings(nT, L) if all(t < 24 for t in s)]
        sents = set()
        for _ in range(40 if tier == 'quick' else 150):
            s = gram.random_sentence(rnd, g, maxdepth=rnd.randint(3, 9), maxlen=24)
            if s is not None and all(t < 24 for t in s):
                sents.add(genrun.enc(s))
        sents = sorted(sents)[:25 if tier == 'quick' else 80]
        muts = set()
        for s in sents[:12]:
            if s:
                k = rnd.randrange(len(s))
                muts.add(s[:k] + s[k + 1:])
                muts.add(s[:k] + chr(97 + rnd.randrange(nT)) + s[k:])
                muts.add(s[:k] + chr(97 + rnd.randrange(nT)) + s[k + 1:])
        unk = ['x', 'ax', 'xa', 'w', 'aw', 'v', 'u'] if nT <= 20 else []
        for s in sents[:8]:
            if nT <= 20:
                k = rnd.randrange(len(s) + 1)
                unk.append(s[:k] + rnd.choice('xwvu') + s[k:])
        allins = list(dict.fromkeys(ins + sents + sorted(muts) + ['z', 'az', 'za', 'y', 'ay'] + unk))
        jl = [('run', x) for x in allins]
        pool = allins[:60] + sents + ['y', 'ay']
        for _ in range(8 if gname.startswith('opt') else (3 if tier == 'quick' else 8)):
            jl.append(('hist', ','.join(rnd.choice(pool) for _ in range(rnd.randint(2, 6)))))
        jl.append(('xlate', '-6'))
        if gname == 'c_expr' and sents:
            # one context re-initialised ten thousand times (object mode keeps its stack slice between parses)
            jl.append(('rep', '%s,10050' % sents[0]))
        for x in (sents[:3] + ins[1:3]):
            jl.append(('trace', x))
        for _ in range(2 if tier == 'quick' else 6):
            a, b = rnd.choice(pool), rnd.choice(pool)
            jl.append(('nest', '%s,%s,%d' % (a, b, rnd.randint(1, max(1, len(a) + 1)))))
        for _ in range(3 if tier == 'quick' else 8):
            a, b = rnd.choice(sents or pool), rnd.choice(sents or pool)
            jl.append(('nestr', '%s,%s,%d' % (a, b, rnd.randint(1, max(1, len(a))))))
        for _ in range(2 if tier == 'quick' else 5):
            a, b = rnd.choice(sents or pool), rnd.choice(sents or pool)
            jl.append(('tracen', '%s,%s,%d' % (a, b, rnd.randint(1, max(1, len(a) // 2 + 1)))))
        jobs[gname] = list(dict.fromkeys(jl))
    return gs, jobs


def i6_shared(ctx):
    def compute():
        gs, jobs = i6_corpus(ctx.seed, ctx.tier)
        out = i6check.run('shared-%d-%s' % (ctx.seed, ctx.tier), gs, jobs)
        texts = {}
        for gi, (gname, g) in enumerate(gs):
            texts[gname] = genrun.go_text(g, 'p', False)
        out['texts'] = texts
        out['grammars'] = dict(gs)
        out['jobs'] = jobs
        shutil.rmtree(out['work'], ignore_errors=True)
        return out
    return cached('i6', ctx.seed, ctx.tier, compute)


def parsed_runs(out, modes=('run',)):
    """Iterates (gname, variant, mode, payload, parsed impl result, parsed model result or None)."""
    for gname, byv in out['res'].items():
        if gname.startswith('__'):
            continue
        for vn, rs in byv.items():
            for (mode, payload), raw in rs.items():
                if mode not in modes:
                    continue
                ms = out['model'].get((gname, vn, mode, payload))
                yield gname, vn, mode, payload, raw, ms


def case_of(out, gname, **kw):
    d = dict(grammar=gname, grammar_text=out['texts'].get(gname), grammar_sha=vlib.sha(out['texts'].get(gname, '')))
    d.update(kw)
    return d


def report_corr(ctx, diffs, interfaces, label):
    """Correspondence breaks on the interfaces a property depends on for which no failing input was
    exhibited: reported as no-failing-input-found (at most one per interface)."""
    seen = set()
    for d in diffs:
        if d['interface'] in interfaces and d['interface'] not in seen:
            seen.add(d['interface'])
            ctx.violation('no-failing-input-found', '%s: model and implementation differ at interface %s: %s' % (label, d['interface'], d['what']),
                          d['case'], interface=d['interface'])


def backend_diffs(be):
    out = []
    for name, (d, m, diffs, v) in be['res'].items():
        if m is None:
            continue
        for (itf, what) in diffs:
            out.append(dict(interface=itf, what='grammar %s: %s' % (name, what),
                            case=dict(grammar=name, grammar_text=be['texts'][name], grammar_sha=vlib.sha(be['texts'][name]), interface=itf, detail=what)))
    return out


def i6_diffs(out):
    res = []
    for d in out['diffs']:
        res.append(dict(interface='I6', what='grammar %s variant %s input %r: %s' % (d['grammar'], d['variant'], d.get('part', d['payload']), d['what']),
                        case=case_of(out, d['grammar'], variant=d['variant'], input=d.get('part', d['payload']), mode=d['mode'], observed=d['impl'], expected=d['model'])))
    return res


def had_counterexample(ctx):
    return any(v['kind'] == 'counterexample' for v in ctx.violations)


# ------------------------------------------------------------------ verified replay oracle (C01, C07)
def replay_oracle(out, variants=genrun.ALL_VARIANTS):
    """Runs Oracle.replay (extracted) on every accepted run of the real parsers.
    Returns list of (gname, variant, payload, parsed impl result, 'ok v' | 'invalid')."""
    gs = out['grammars']
    chunks = []
    keys = []
    order = sorted(gs)
    for gi, gname in enumerate(order):
        g = gs[gname]
        d = out['dumps'].get(gname)
        if not d or not d.get('ok') or g.get('plain_actions'):
            continue
        text = []
        chunks.append(text)
        acts = [(0, [])] + [(r['c'], r['coef']) for r in g['rules']]
        first = True
        for vn in variants:
            for (mode, payload), raw in out['res'][gname].get(vn, {}).items():
                # every accepted parse: alone, as a member of a history on one parser, and while another parse is in progress
                if mode == 'run':
                    comps = [(payload, raw)]
                elif mode == 'hist':
                    comps = list(zip(payload.split(','), raw.split(' ; ')))
                elif mode in ('nest', 'nestr'):
                    f2 = raw.split(' ; ')
                    a, b, _k = payload.split(',')
                    comps = [(a, f2[0]), (b, f2[1])] if len(f2) == 2 and f2[1] != '-' else []
                else:
                    continue
                for (inp, rawc) in comps:
                    try:
                        ir = genrun.parse_result(rawc)
                    except Exception:
                        continue
                    if ir['kind'] != 'A':
                        continue
                    if first:
                        text.append(vlib.model_grammar_text('o%d' % gi, d, acts))
                        first = False
                    ir['mode'] = mode
                    reds = ' '.join('%d %d' % (r, max(0, f - 1)) for r, f in zip(ir['reds'], ir['redf']))
                    text.append('V %d %s %d %s\n' % (len(keys), i6check.model_input(g, out['tids'][gname], inp), len(ir['reds']), reds))
                    keys.append((gname, vn, inp, ir))
    lines = vlib.model_eval_chunks([''.join(t) for t in chunks])
    verdict = {}
    for ln in lines:
        f = ln.split()
        if len(f) >= 5 and f[1] == 'replay':
            verdict[int(f[2])] = ' '.join(f[4:])
    return [(k[0], k[1], k[2], k[3], verdict.get(i, 'missing')) for i, k in enumerate(keys)]


# ------------------------------------------------------------------ C01
def run_C01(ctx):
    out = i6_shared(ctx)
    be = backend_shared(ctx)
    n_acc = 0
    for gname, vn, payload, ir, verdict in replay_oracle(out):
        ctx.evaluations += 1
        n_acc += 1
        if ir['reds']:
            ctx.nontrivial.add((gname, payload))
        if not verdict.startswith('ok'):
            ctx.violation('counterexample', 'variant %s of grammar %s accepts %r but its reductions %s are not a rightmost derivation of the input in reverse (verified replay: %s)'
                          % (vn, gname, payload, ir['reds'], verdict), case_of(out, gname, variant=vn, input=payload, observed=ir['raw'], expected='a valid derivation'), interface='I6')
        elif ctx.evaluations % 997 == 1:
            ctx.sample(dict(grammar=gname, variant=vn, input=payload, reductions=ir['reds'], replay=verdict))
    ctx.extra['accepted_runs_replayed'] = n_acc
    ctx.extra['grammars'] = len(out['grammars'])
    if not had_counterexample(ctx):
        acc = [d for d in i6_diffs(out) if ("'kind': 'A'" in str(d['case'].get('expected')) or str(d['case'].get('expected', '')).startswith('A ') or str(d['case'].get('observed', '')).startswith('A|'))]
        report_corr(ctx, acc + backend_diffs(be) + backend_diffs_of_i6(out), {'I1', 'I2', 'I4', 'I5', 'I6'}, 'C01')


def backend_diffs_of_i6(out):
    """End-to-end differences on the grammars of the generated-parser corpus: the model built from the text of each file
    against the tables the implementation built from it."""
    res = []
    for (gname, itf, what) in out.get('e2e', []):
        res.append(dict(interface=itf, what='grammar %s: %s' % (gname, what), case=case_of(out, gname, interface=itf, detail=what)))
    return res


# ------------------------------------------------------------------ C07
def run_C07(ctx):
    out = i6_shared(ctx)
    for gname, vn, payload, ir, verdict in replay_oracle(out):
        ctx.evaluations += 1
        g = out['grammars'][gname]
        if any(len(g['rules'][r - 1]['rhs']) >= 2 for r in ir['reds']):
            ctx.nontrivial.add((gname, payload))
        if verdict.startswith('ok') and verdict.split()[1] != str(ir['value']):
            ctx.violation('counterexample', 'variant %s of grammar %s returns %s for %r; bottom-up evaluation of its own reductions gives %s'
                          % (vn, gname, ir['value'], payload, verdict.split()[1]), case_of(out, gname, variant=vn, input=payload, observed=ir['raw'], expected=verdict), interface='I6')
        elif ctx.evaluations % 997 == 1:
            ctx.sample(dict(grammar=gname, variant=vn, input=payload, value=ir['value'], replay=verdict))
    # the action written for the k-th rule must run for the k-th production: the grammar object the tables are built from
    # lists the productions in the order written
    for gname, g in out['grammars'].items():
        d = out['dumps'].get(gname)
        if not d or not d.get('ok'):
            continue
        sname = {s['id']: s['name'] for s in d['symbols']}
        for k, (r, dr) in enumerate(zip(g['rules'], d['rules'][1:])):
            want = (gram.internal_name(g, ('n', r['lhs'])), [gram.internal_name(g, x) for x in r['rhs']])
            got = (sname.get(dr['lhs']), [sname.get(x) for x in dr['rhs']])
            if want != got:
                ctx.violation('counterexample', 'grammar %s: the action written for rule %d (%s -> %s) is attached to production %d of the generated parser, which is %s -> %s'
                              % (gname, k + 1, want[0], ' '.join(want[1]), k + 1, got[0], ' '.join(map(str, got[1]))), case_of(out, gname, observed=str(got), expected=str(want)), interface='I1')
                break
    lens = set()
    for g in out['grammars'].values():
        for r in g['rules']:
            lens.add(len(r['rhs']))
    ctx.extra['rule_lengths_covered'] = sorted(lens)
    # grammars whose alternatives share their action text (no rule number inside): the value returned by every real
    # parser against the value of the proved model (= bottom-up evaluation over the parse tree, theorem C07_values)
    ntw = 0
    for d in out['diffs']:
        g = out['grammars'][d['grammar']]
        if g.get('plain_actions') and 'value differs' in d['what']:
            ctx.violation('counterexample', 'grammar %s variant %s input %r: %s (alternatives of one nonterminal share the action text but their symbols use different union fields)'
                          % (d['grammar'], d['variant'], d.get('part', d['payload']), d['what']),
                          case_of(out, d['grammar'], variant=d['variant'], input=d.get('part', d['payload']), observed=d['impl'], expected=d['model']), interface='I6')
    for gname, vn, mode, payload, raw, ms in parsed_runs(out):
        if out['grammars'][gname].get('plain_actions') and raw.startswith('A|'):
            ntw += 1
            ctx.evaluations += 1
            ctx.nontrivial.add((gname, payload))
        # every accepted run: the value returned by the real parser against the value of the proved model on the same input
        # (the model's value is the bottom-up evaluation of the actions over the parse tree, theorem C07_values)
        if raw.startswith('A|') and ms and ms.startswith('A '):
            iv, mv = genrun.parse_result(raw)['value'], ms.split(' ')[1]
            if str(iv) != str(mv):
                ctx.violation('counterexample', 'grammar %s variant %s input %r: the parser returns %s, evaluating the actions bottom-up over the parse tree gives %s'
                              % (gname, vn, payload, iv, mv), case_of(out, gname, variant=vn, input=payload, observed=raw, expected=ms), interface='I6')
    ctx.extra['shared_action_text_runs'] = ntw
    # values computed while another parse is going on (a parse started from inside an action of another parse through
    # PushContex/PopContex or on a second context) or after earlier parses on the same parser: the value of an accepted parse is
    # the bottom-up evaluation of its own actions, so it must be the value the same input gives alone
    nested = 0
    for gname, byv in out['res'].items():
        if gname.startswith('__'):
            continue
        for vn, rs in byv.items():
            for (mode, payload), raw in rs.items():
                if mode in ('nest', 'nestr'):
                    a, b, k = payload.split(',')
                    f = raw.split(' ; ')
                    if len(f) != 2 or f[1] == '-':
                        continue
                    pairs = [(a, f[0]), (b, f[1])]
                elif mode == 'hist':
                    pairs = list(zip(payload.split(','), raw.split(' ; ')))
                else:
                    continue
                for inp, got in pairs:
                    alone = rs.get(('run', inp))
                    if alone is None or not alone.startswith('A|'):
                        continue
                    nested += 1
                    ctx.evaluations += 1
                    if got != alone:
                        ctx.violation('counterexample', 'grammar %s variant %s: the parse of %r, run %s, returns %s; the actions evaluated bottom-up over its parse tree give %s (what it returns alone)'
                                      % (gname, vn, inp, 'while another parse is in progress (%s)' % mode if mode != 'hist' else 'after other parses on the same parser', got, alone),
                                      case_of(out, gname, variant=vn, input=payload, mode=mode, observed=raw, expected=alone), interface='I6')
                        break
    ctx.extra['values_in_nested_and_repeated_parses'] = nested
    if not had_counterexample(ctx):
        vd = [d for d in i6_diffs(out) if 'value differs' in d['what']]
        report_corr(ctx, vd + backend_diffs_of_i6(out), {'I1', 'I6'}, 'C07')


# ------------------------------------------------------------------ C08 / C05 (variants)
def norm_result(ir, vn):
    """Observable of a run that all variants must share: verdict class, reductions with the number of tokens
    requested at each, value, tokens requested in total."""
    k = ir['kind']
    if vn == 'ts' and k == 'N' and 'Grammer error' in ir['msg']:
        k = 'E'
    if k == 'E' and not (vn == 'ts') and not ir['msg'].startswith('Grammar error'):
        k = 'CRASH:' + ir['msg'][:60]
    if k == 'X':
        k = 'CRASH:' + ir['msg'][:60]
    return (k, tuple(ir['reds']), tuple(ir['redf']), ir.get('value') if k == 'A' else None, ir['fetched'])


def variant_pairs(ctx, out, pairs, label):
    for gname, byv in out['res'].items():
        if gname.startswith('__'):
            continue
        for (va, vb) in pairs:
            if (gname, va) in out['compile_fail'] or (gname, vb) in out['compile_fail']:
                continue
            if 'ts' in (va, vb) and (gname in out['ts_status'] or '__node__' in out['ts_status']):
                continue
            ra, rb = byv.get(va, {}), byv.get(vb, {})
            for key, raw in ra.items():
                if key[0] not in ('run', 'hist') or key not in rb:
                    continue
                ctx.evaluations += 1
                pa = [norm_result(genrun.parse_result(x), va) for x in raw.split(' ; ')]
                pb = [norm_result(genrun.parse_result(x), vb) for x in rb[key].split(' ; ')]
                if any(x[0] == 'A' for x in pa):
                    ctx.nontrivial.add((gname, key))
                if pa != pb:
                    ctx.violation('counterexample', '%s: grammar %s, %s %r: variant %s gives %s, variant %s gives %s' % (label, gname, key[0], key[1], va, raw, vb, rb[key]),
                                  case_of(out, gname, variant=va + '/' + vb, input=key[1], mode=key[0], observed=raw, expected=rb[key]), interface='I6')
                elif ctx.evaluations % 4999 == 1:
                    ctx.sample(dict(grammar=gname, mode=key[0], input=key[1], variants=[va, vb], result=raw))


def run_C08(ctx):
    out = i6_shared(ctx)
    variant_pairs(ctx, out, [('gp', 'op'), ('gp', 'gu'), ('gp', 'ou'), ('gp', 'ts')], 'C08')
    ctx.extra['ts_covered'] = '__node__' not in out['ts_status']
    ctx.extra['ts_not_run'] = sorted(out['ts_status'])[:5]
    for gname, msg in out['ts_status'].items():
        if msg == 'generation failed' and out['gen'].get(gname, {}).get('gp', {}).get('rc') != 0:
            continue          # the grammar is refused for every target (an edge grammar): no parser, nothing to compare
        if gname != '__node__':
            ctx.violation('counterexample', 'TypeScript parser of grammar %s does not run: %s' % (gname, msg), case_of(out, gname, variant='ts', observed=msg), interface='I6')
    if not had_counterexample(ctx):
        report_corr(ctx, i6_diffs(out) + backend_diffs_of_i6(out), {'I1', 'I5', 'I6'}, 'C08')


def run_C05(ctx):
    be = backend_shared(ctx)
    out = i6_shared(ctx)
    blanks = 0
    for name, (d, m, diffs, v) in be['res'].items():
        if m is None or not d.get('needpacked'):
            continue
        ctx.evaluations += len(d['gtable']) * len(d['symbols'])
        err = d['errcode']
        if any(x != err for x in d['adef']) or any(x != err for x in d['gdef']):
            ctx.nontrivial.add(name)
        # the one condition C05_packed_agrees_offsets leaves to be evaluated on the arrays: no goto column lands on a negative slot
        # (the other two - no 0 cell, column 0 holds the error code - are theorems about the model and are evaluated here as well)
        off, nterm = d.get('off') or [], d['nterm']
        conds = dict(offsets_reach_goto_columns=all(o + nterm + 1 >= 0 for o in off[:len(d['gtable'])]),
                     no_zero_cell=all(c != 0 for row in d['gtable'] for c in row),
                     column0_is_error=all(row[0] == err for row in d['gtable']))
        for k, ok in conds.items():
            if not ok:
                ctx.violation('no-failing-input-found', 'grammar %s: the condition %s of the packed-lookup theorem does not hold on the arrays of the implementation' % (name, k),
                              dict(grammar=name, grammar_text=be['texts'][name], grammar_sha=vlib.sha(be['texts'][name]), detail=k), interface='I5')
        blanks += 1
        for (itf, what) in diffs:
            if itf == 'I5':
                ctx.violation('counterexample', 'grammar %s: %s' % (name, what),
                              dict(grammar=name, grammar_text=be['texts'][name], grammar_sha=vlib.sha(be['texts'][name]), detail=what), interface='I5')
    mat = matrix_roundtrip(ctx)
    variant_pairs(ctx, out, [('gp', 'gu'), ('op', 'ou')], 'C05 packed vs -u')
    ctx.extra['packed_grammars'] = sum(1 for (d, m, _, _) in be['res'].values() if m is not None and d.get('needpacked'))
    ctx.extra['theorem_conditions_evaluated_on_tables'] = blanks
    ctx.extra['matrices'] = mat
    if not had_counterexample(ctx):
        bd = [x for x in backend_diffs(be) if x['interface'] in ('I5', 'I5n')]
        report_corr(ctx, bd, {'I5', 'I5n'}, 'C05')


def random_matrix(rnd):
    rows, cols = rnd.randint(1, 7), rnd.randint(1, 8)
    style = rnd.randrange(6)
    dens = [0.15, 0.4, 0.8, 0.05, 0.3, 0.5][style]
    m = [[(rnd.randint(-9, 30) or 1) if rnd.random() < dens else 0 for _ in range(cols)] for _ in range(rows)]
    if style == 3:
        for r in m:
            for j in range(min(cols, rnd.randint(1, 4))):
                r[j] = 0
    if style == 4 and rows > 1:
        m[rnd.randrange(rows)] = [0] * cols
    return m


def matrix_roundtrip(ctx):
    """utils.PackTable / UnPackTable on random integer matrices: direct oracle unpack(pack m) = m and
    correspondence with the model's pack_matrix/unpack."""
    bindir = vlib.build_impl()
    n = 400 if ctx.quick else 6000
    ms = [[[0, 5, 0, 7]], [[0, 0, 0]], [[1]], [[0, 0], [0, 3]], [[0, 1, 0, 0], [0, 0, 0, 2], [3, 0, 0, 0]]] + [random_matrix(ctx.rnd) for _ in range(n)]
    inp = ''.join('%d %d %s\n' % (len(m), len(m[0]), ' '.join(str(x) for r in m for x in r)) for m in ms)
    r = vlib.sh([os.path.join(bindir, 'packrt')], input=inp, timeout=600)
    impl = [json.loads(l) for l in r.stdout.splitlines() if l.startswith('{')]
    mtext = ''.join('M %d %d %d %s\n' % (i, len(m), len(m[0]), ' '.join(str(x) for r in m for x in r)) for i, m in enumerate(ms))
    lines = vlib.model_eval(mtext)
    mu = {}
    for ln in lines:
        f = ln.split(' ', 3)
        if f[0] == 'M' and f[2] == 'U':
            mu[int(f[1])] = [[int(x) for x in row.split()] for row in f[3].split(' | ')] if len(f) > 3 else []
    bad = 0
    lead = 0
    for i, m in enumerate(ms):
        ctx.evaluations += 1
        o = impl[i] if i < len(impl) else dict(panic='no output')
        if any(m[r][c] != 0 for r in range(len(m)) for c in range(len(m[0]))) and all(r[0] == 0 for r in m):
            lead += 1
            ctx.nontrivial.add(('matrix', i))
        if o.get('panic'):
            if mu.get(i) == m:
                ctx.violation('counterexample', 'PackTable/UnPackTable panics on matrix %s: %s' % (m, o['panic']), dict(matrix=m, observed=o['panic']), interface='I5m')
                bad += 1
            continue
        if o['unpacked'] != m:
            bad += 1
            ctx.violation('counterexample', 'UnPackTable(PackTable(m)) != m for m = %s: got %s' % (m, o['unpacked']), dict(matrix=m, observed=o['unpacked'], expected=m), interface='I5m')
        elif mu.get(i) != m:
            ctx.violation('no-failing-input-found', 'model round trip differs on matrix %s: %s' % (m, mu.get(i)), dict(matrix=m), interface='I5m')
    return dict(matrices=len(ms), with_leading_empty_column=lead, failures=bad)


# ------------------------------------------------------------------ C02
def run_C02(ctx):
    out = i6_shared(ctx)
    be = backend_shared(ctx)
    ngr = 0
    for gname, g in out['grammars'].items():
        d = out['dumps'].get(gname)
        if not d or not d.get('ok'):
            continue
        # LALR(1) = the verified model finds no cell with two candidate actions (no warning and no precedence use)
        if not conflict_free(out, gname):
            continue
        ngr += 1
        for vn in genrun.ALL_VARIANTS:
            if (gname, vn) in out['compile_fail'] or (vn == 'ts' and (gname in out['ts_status'] or '__node__' in out['ts_status'])):
                continue
            for (mode, payload), raw in out['res'][gname].get(vn, {}).items():
                if mode != 'run':
                    continue
                ms = out['model'].get((gname, vn, mode, payload))
                if not ms or not ms.startswith('A '):
                    continue          # not a sentence (the model is sound and complete on LALR(1) grammars)
                ctx.evaluations += 1
                ctx.nontrivial.add((gname, payload))
                ir = genrun.parse_result(raw)
                if ir['kind'] != 'A':
                    ctx.violation('counterexample', 'grammar %s is LALR(1) and derives %r, but variant %s says %s' % (gname, payload, vn, raw),
                                  case_of(out, gname, variant=vn, input=payload, observed=raw, expected=ms), interface='I6')
                elif ctx.evaluations % 1999 == 1:
                    ctx.sample(dict(grammar=gname, variant=vn, sentence=payload, result=raw))
    ctx.extra['lalr1_grammars'] = ngr
    if not had_counterexample(ctx):
        report_corr(ctx, backend_diffs(be) + i6_diffs(out) + backend_diffs_of_i6(out), {'I1', 'I2', 'I3', 'I4', 'I5', 'I6'}, 'C02')


def conflict_free(out, gname):
    """No cell of the model's table has two candidates: computed from the model run on this grammar."""
    cf = out.get('_cf')
    if cf is None:
        cf = out['_cf'] = conflict_info(out)
    return cf.get(gname, False)


def conflict_info(out):
    gs = out['grammars']
    text = []
    order = sorted(gs)
    for gi, gname in enumerate(order):
        d = out['dumps'].get(gname)
        if d and d.get('ok'):
            text.append(vlib.model_grammar_text('k%d' % gi, d))
            text.append('K\n')
    lines = vlib.model_eval(''.join(text)) if text else []
    res = {}
    for ln in lines:
        f = ln.split()
        if len(f) >= 3 and f[1] == 'conflicts':
            res[order[int(f[0][1:])]] = (f[2] == '0')
    return res


# ------------------------------------------------------------------ C03
def run_C03(ctx):
    be = backend_shared(ctx)
    for name, (d, m, diffs, v) in be['res'].items():
        if m is None:
            continue
        ctx.evaluations += 1
        if len(v['la']) >= 2 and any(len(x) >= 2 for x in v['la'].values()):
            ctx.nontrivial.add(name)
        for (itf, what) in diffs:
            if itf == 'I3':
                ctx.violation('counterexample', 'grammar %s: %s (the model value is the LALR(1) set by theorem C03_lookahead)' % (name, what),
                              dict(grammar=name, grammar_text=be['texts'][name], grammar_sha=vlib.sha(be['texts'][name]), detail=what), interface='I3')
            if itf == 'I4w':
                ctx.violation('counterexample', 'grammar %s: conflict warnings differ from the unresolved LALR(1) conflicts: %s' % (name, what),
                              dict(grammar=name, grammar_text=be['texts'][name], grammar_sha=vlib.sha(be['texts'][name]), detail=what), interface='I4w')
        if ctx.evaluations % 40 == 1:
            ctx.sample(dict(grammar=name, reductions=len(v['la']), warnings=len(v['warn']), lookaheads={'%d,%d' % k: x for k, x in list(v['la'].items())[:3]}))
    ctx.extra['grammars_with_warnings'] = sum(1 for (d, m, _, v) in be['res'].values() if m is not None and v['warn'])
    dg = digraph_diff(ctx)
    ctx.extra['digraph'] = dg
    if not had_counterexample(ctx):
        report_corr(ctx, backend_diffs(be), {'I2', 'I3', 'I4w'}, 'C03')


def digraph_diff(ctx):
    """The real Digraph/Traverse/Union on random relations with cycles against transitive union; half of the cases
    chain two passes (the result of the first is the base of the second, as Read sets feed the Follow computation)."""
    bindir = vlib.build_impl()
    n = 600 if ctx.quick else 10000
    cases = []
    for i in range(n):
        k = ctx.rnd.randint(1, 8)
        pairs = [(ctx.rnd.randrange(k), ctx.rnd.randrange(k)) for _ in range(ctx.rnd.randint(0, 2 * k))]
        fp = [sorted(set(ctx.rnd.randrange(8) for _ in range(ctx.rnd.randint(0, 4)))) for _ in range(k)]
        c = dict(k=k, pairs=pairs, fp=fp)
        if i % 2:
            # the first relation of a chained case is acyclic (x -> y only for x < y), as `reads` is for every LR(k) grammar;
            # with a cyclic first relation the members of a component share one slice and the second pass of the unchanged
            # code can overwrite it (observation recorded in DESIGN.md section 6; no grammar exhibiting it was found)
            c['pairs'] = [(min(a, b), max(a, b)) for (a, b) in pairs if a != b]
            c['pairs2'] = [(ctx.rnd.randrange(k), ctx.rnd.randrange(k)) for _ in range(ctx.rnd.randint(0, 2 * k))]
        cases.append(c)
    r = vlib.sh([os.path.join(bindir, 'digraph')], input='\n'.join(json.dumps(c) for c in cases) + '\n', timeout=600)
    outs = [json.loads(l) for l in r.stdout.splitlines() if l.startswith('[')]

    def closure(k, pairs, base):
        reach = [set([i]) for i in range(k)]
        ch = True
        while ch:
            ch = False
            for (x, y) in pairs:
                if not reach[y] <= reach[x]:
                    reach[x] |= reach[y]
                    ch = True
        cyc = any(x in reach[y] and y in reach[x] and x != y for x in range(k) for y in range(k))
        return [sorted(set(t for j in reach[i] for t in base[j])) for i in range(k)], cyc
    bad = 0
    cyc = 0
    for c, o in zip(cases, outs):
        want, cy = closure(c['k'], c['pairs'], c['fp'])
        if 'pairs2' in c:
            want, cy2 = closure(c['k'], c['pairs2'], want)
            cy = cy or cy2
        cyc += cy
        got = [sorted(set(x)) for x in o]
        if want != got:
            bad += 1
            if bad <= 2:
                ctx.violation('counterexample', 'Digraph on relation %s%s with base sets %s gives %s, the union over R* is %s' % (c['pairs'], (' then ' + str(c['pairs2'])) if 'pairs2' in c else '', c['fp'], got, want),
                              dict(relation=c['pairs'], relation2=c.get('pairs2'), base=c['fp'], observed=got, expected=want), interface='I3d')
    if len(outs) != len(cases):
        ctx.violation('no-failing-input-found', 'the digraph harness answered %d of %d cases: %s' % (len(outs), len(cases), r.stderr[-300:]), {}, interface='I3d')
    return dict(relations=len(cases), with_cycles=cyc, two_pass=sum(1 for c in cases if 'pairs2' in c), failures=bad)


# ------------------------------------------------------------------ C09
def run_C09(ctx):
    be = backend_shared(ctx)
    for name, (d, m, diffs, v) in be['res'].items():
        if m is None:
            continue
        ctx.evaluations += 1
        if len(v['lr0']) >= 4 and any(len([1 for (r, dd) in items if dd > 0]) >= 2 for (items, _) in v['lr0']):
            ctx.nontrivial.add(name)
        for (itf, what) in diffs:
            if itf == 'I2':
                ctx.violation('counterexample', 'grammar %s: %s (the model automaton is the canonical LR(0) collection by theorem C09_canonical)' % (name, what),
                              dict(grammar=name, grammar_text=be['texts'][name], grammar_sha=vlib.sha(be['texts'][name]), detail=what), interface='I2')
        # direct structural checks on the implementation's own automaton
        items = [tuple(sorted(map(tuple, s['items']))) for s in d['lr0']]
        if len(set(items)) != len(items):
            ctx.violation('counterexample', 'grammar %s: two parser states have the same item set' % name,
                          dict(grammar=name, grammar_text=be['texts'][name], grammar_sha=vlib.sha(be['texts'][name]), detail='duplicate state'), interface='I2')
        if ctx.evaluations % 40 == 1:
            ctx.sample(dict(grammar=name, states=len(v['lr0']), state0=v['lr0'][0][0][:6]))
    ctx.extra['max_states'] = max([len(v['lr0']) for (d, m, _, v) in be['res'].values() if m is not None] + [0])


# ------------------------------------------------------------------ C04
def run_C04(ctx):
    be = backend_shared(ctx)
    out = i6_shared(ctx)
    for name, (d, m, diffs, v) in be['res'].items():
        if m is None:
            continue
        ctx.evaluations += 1
        g = be['grammars'][name]
        if g['precs'] and (v['warn'] or any('e' != c for c in [])):
            pass
        if g['precs']:
            ctx.nontrivial.add(name)
        for (itf, what) in diffs:
            if itf in ('I4', 'I4w'):
                ctx.violation('counterexample', 'grammar %s: %s (the model cell is the documented resolution by theorems C04_*)' % (name, what),
                              dict(grammar=name, grammar_text=be['texts'][name], grammar_sha=vlib.sha(be['texts'][name]), detail=what), interface=itf)
    ctx.extra['resolve_pairs'] = resolve_exhaustive(ctx)
    ctx.extra['rule_precedence'] = rule_prec_frontend(ctx)
    ctx.extra['prec_grammars'] = len(ctx.nontrivial)
    # expression grammars: the value computed by every real parser against the model's
    n = 0
    for d in out['diffs']:
        if out['grammars'][d['grammar']].get('operator') or out['grammars'][d['grammar']]['precs']:
            n += 1
            if n <= 3:
                ctx.violation('no-failing-input-found', 'operator grammar %s variant %s input %r: %s' % (d['grammar'], d['variant'], d.get('part', d['payload']), d['what']),
                              case_of(out, d['grammar'], variant=d['variant'], input=d.get('part', d['payload']), observed=d['impl'], expected=d['model']), interface='I6')
    if not had_counterexample(ctx):
        report_corr(ctx, backend_diffs(be), {'I4', 'I4w'}, 'C04')


def rule_prec_frontend(ctx):
    """Precedence of every rule and terminal as the implementation reads it from the file (alternatives grouped
    with `|`, %prec anywhere in the list) against the declarations: a rule takes the level of its %prec symbol,
    else of its last terminal that has one; a terminal the level (line ordinal) and associativity of its line."""
    import front
    rnd = random.Random(ctx.seed * 811 + 3)
    n = 60 if ctx.quick else 600
    work = os.path.join(vlib.WORK, 'c04f-%d' % os.getpid())
    shutil.rmtree(work, ignore_errors=True)
    os.makedirs(work)
    specs, paths, texts = [], [], []
    try:
        for i in range(n):
            g = gram.operator_grammar(rnd) if i % 2 == 0 else gram.random_usable(rnd, nT=rnd.randint(2, 5), nN=rnd.randint(1, 3), p_prec=1.0, max_alts=4)
            sp = front.decorate(g, rnd, actions=False)
            t = front.render(sp, rnd, rnd.choice(['plain', 'random']))
            p = os.path.join(work, 'o%d.y' % i)
            open(p, 'w').write(t)
            specs.append(sp); paths.append(p); texts.append(t)
        res = front.run_front(paths)
        bad = 0
        with_prec = 0
        for i, (sp, t, (d, m, vd)) in enumerate(zip(specs, texts, res)):
            ctx.evaluations += 1
            if not d.get('ok'):
                continue
            want, got = front.denote(sp), front.read_back(d)
            if any(r['prec'] for r in want['rules']):
                with_prec += 1
                ctx.nontrivial.add('ruleprec%d' % i)
            diffs = []
            for k, (a, b) in enumerate(zip(want['rules'], got['rules'])):
                if a['prec'] != b['prec']:
                    diffs.append('rule %d (%s -> %s) takes its precedence from %r, the declarations say %r' % (k + 1, a['lhs'], ' '.join(a['rhs']), b['prec'], a['prec']))
            if want['prec'] != got['prec']:
                diffs.append('terminal precedence (level, assoc) read as %s, declared %s' % (sorted(got['prec'].items()), sorted(want['prec'].items())))
            if diffs:
                bad += 1
                ctx.violation('counterexample', 'precedence as read from the file: ' + '; '.join(diffs[:2]), dict(grammar='o%d' % i, grammar_text=t, grammar_sha=vlib.sha(t), observed=diffs[:4]), interface='I1p')
        return dict(specs=n, with_rule_precedence=with_prec, failures=bad)
    finally:
        shutil.rmtree(work, ignore_errors=True)


def resolve_exhaustive(ctx):
    """lalr.ResolveConflict / UseDefaultResolveConflict on every pair of (type, prec, assoc, index) from a
    finite grid, against Resolve.resolve_pair / default_pair of the model."""
    bindir = vlib.build_impl()
    r = vlib.sh([os.path.join(bindir, 'resolve')], timeout=300)
    impl = [l for l in r.stdout.splitlines() if l.startswith('P ')]
    lines = vlib.model_eval('Q\n')
    model = [l for l in lines if l.startswith('P ')]
    n = len(impl)
    ctx.evaluations += n
    if impl != model:
        k = next((i for i in range(min(len(impl), len(model))) if impl[i] != model[i]), min(len(impl), len(model)))
        ctx.violation('counterexample', 'ResolveConflict/UseDefaultResolveConflict differ from the documented resolution on pair #%d: implementation %r, model %r'
                      % (k, impl[k] if k < len(impl) else None, model[k] if k < len(model) else None),
                      dict(pair_index=k, observed=impl[k] if k < len(impl) else None, expected=model[k] if k < len(model) else None), interface='I4r')
    return dict(pairs=n, exhaustive=True)


# ------------------------------------------------------------------ C06
def earley_prefix_sets(g, toks):
    """Earley recogniser; returns (number of tokens after which the item set becomes empty or None, accepted)."""
    rules = [(('n', r['lhs']), [tuple(x) for x in r['rhs']]) for r in g['rules']]
    start = ('n', g['start'])
    S = [set() for _ in range(len(toks) + 1)]
    for ri, (a, rhs) in enumerate(rules):
        if a == start:
            S[0].add((ri, 0, 0))
    for k in range(len(toks) + 1):
        work = list(S[k])
        while work:
            (ri, d, o) = work.pop()
            a, rhs = rules[ri]
            if d < len(rhs):
                X = rhs[d]
                if X[0] == 'n':
                    for rj, (b, _) in enumerate(rules):
                        if b == X and (rj, 0, k) not in S[k]:
                            S[k].add((rj, 0, k)); work.append((rj, 0, k))
                    for (rj, dj, oj) in list(S[k]):
                        if oj == k and rules[rj][0] == X and dj == len(rules[rj][1]):
                            n = (ri, d + 1, o)
                            if n not in S[k]:
                                S[k].add(n); work.append(n)
                elif k < len(toks) and X == ('t', toks[k]):
                    S[k + 1].add((ri, d + 1, o))
            else:
                for (rj, dj, oj) in list(S[o]):
                    b, rhsj = rules[rj]
                    if dj < len(rhsj) and rhsj[dj] == a:
                        n = (rj, dj + 1, oj)
                        if n not in S[k]:
                            S[k].add(n); work.append(n)
        if k < len(toks) and not S[k + 1] and True:
            # token k cannot continue any sentence
            if k + 1 <= len(toks):
                pass
    firstbad = None
    for k in range(1, len(toks) + 1):
        if not S[k]:
            firstbad = k - 1
            break
    acc = any(rules[ri][0] == start and d == len(rules[ri][1]) and o == 0 for (ri, d, o) in S[len(toks)]) if firstbad is None else False
    return firstbad, acc


def run_C06(ctx):
    out = i6_shared(ctx)
    for gname, byv in out['res'].items():
        if gname.startswith('__'):
            continue
        g = out['grammars'][gname]
        cf = conflict_free(out, gname)
        fb_cache = {}
        for vn, rs in byv.items():
            for (mode, payload), raw in rs.items():
                if mode != 'run':
                    continue
                ir = genrun.parse_result(raw)
                if ir['kind'] in ('A', 'L', 'T'):
                    continue
                ctx.evaluations += 1
                ok_channel = (ir['kind'] == 'E' and ir['msg'].startswith('Grammar error')) if vn != 'ts' else (ir['kind'] == 'N' and 'Grammer error' in ir['msg'])
                if not ok_channel:
                    ctx.violation('counterexample', 'grammar %s variant %s input %r is not accepted, but the parser does not report a grammar error: %s' % (gname, vn, payload, raw),
                                  case_of(out, gname, variant=vn, input=payload, observed=raw, expected='Grammar error'), interface='I6')
                    continue
                if cf:
                    toks = [ord(c) - 97 for c in payload]
                    if payload not in fb_cache:
                        clean = [t if t < len(g['terms']) else -1 for t in toks]
                        fb_cache[payload] = earley_prefix_sets(g, clean)
                    firstbad, acc = fb_cache[payload]
                    if firstbad is None:
                        firstbad = len(toks)      # the end marker is the first bad token
                        if acc:
                            ctx.violation('counterexample', 'grammar %s is conflict-free and derives %r but variant %s rejects it: %s' % (gname, payload, vn, raw),
                                          case_of(out, gname, variant=vn, input=payload, observed=raw), interface='I6')
                            continue
                    ctx.nontrivial.add((gname, payload))
                    if ir['fetched'] != firstbad + 1:
                        ctx.violation('counterexample', 'grammar %s (conflict-free) variant %s input %r: first token that cannot continue a sentence is #%d, but %d tokens had been requested when the error was raised (%s)'
                                      % (gname, vn, payload, firstbad, ir['fetched'], raw), case_of(out, gname, variant=vn, input=payload, observed=raw, expected='error after %d requests' % (firstbad + 1)), interface='I6')
                    elif ctx.evaluations % 2999 == 1:
                        ctx.sample(dict(grammar=gname, variant=vn, input=payload, first_bad_token=firstbad, result=raw))
    # "never by returning a result as if the input had been accepted": every accepted run is re-executed by the verified
    # checker; a result returned for an input that its own reductions do not derive is exactly that
    for gname, vn, payload, ir, verdict in replay_oracle(out):
        ctx.evaluations += 1
        if not verdict.startswith('ok'):
            ctx.violation('counterexample', 'variant %s of grammar %s returns a result for %r as if it had been accepted, but the reductions it performed (%s) do not derive that input (verified replay: %s)'
                          % (vn, gname, payload, ir['reds'], verdict), case_of(out, gname, variant=vn, input=payload, observed=ir['raw'], expected='Grammar error'), interface='I6')
    loops = sum(1 for (_, vn, _, _, raw, _) in parsed_runs(out) if 'STEPLIMIT' in raw)
    ctx.extra['runs_stopped_by_reduction_limit'] = loops
    if not had_counterexample(ctx):
        rej = [d for d in i6_diffs(out) if 'syntax error' in d['what'] or 'error' in d['what'] or 'crashed' in d['what'] or 'nil' in d['what']]
        # the rejection theorems are about the proved tables, through the dense matrix and through the packed arrays: the tables the
        # parsers were generated from must be those the model builds from the same file
        report_corr(ctx, rej + backend_diffs_of_i6(out), {'I1', 'I2', 'I4', 'I5', 'I6'}, 'C06')


# ------------------------------------------------------------------ C15
def run_C15(ctx):
    out = i6_shared(ctx)
    for gname, byv in out['res'].items():
        if gname.startswith('__'):
            continue
        for vn, rs in byv.items():
            for (mode, payload), raw in rs.items():
                if mode == 'hist':
                    parts = payload.split(',')
                    got = raw.split(' ; ')
                    ctx.evaluations += 1
                    kinds = set()
                    for p, r in zip(parts, got):
                        alone = rs.get(('run', p))
                        kinds.add(r[:1])
                        if alone is not None and alone != r:
                            ctx.violation('counterexample', 'grammar %s variant %s: in the sequence %r the parse of %r gives %s, alone it gives %s' % (gname, vn, parts, p, r, alone),
                                          case_of(out, gname, variant=vn, input=payload, mode='hist', observed=raw, expected=alone), interface='I6')
                            break
                    if len(kinds) >= 2:
                        ctx.nontrivial.add((gname, vn, payload))
                    if ctx.evaluations % 199 == 1:
                        ctx.sample(dict(grammar=gname, variant=vn, history=parts, results=got))
                elif mode == 'rep':
                    # the same input ten thousand times on one parser / context: every result is the result of the input alone
                    inp, cnt = payload.split(',')
                    f = raw.split(' ; ')
                    alone = rs.get(('run', inp))
                    ctx.evaluations += 1
                    if len(f) != 3 or f[2] != '1' or (alone is not None and (f[0] != alone or f[1] != alone)):
                        ctx.violation('counterexample', 'grammar %s variant %s: %s parses of %r one after the other on the same parser give %s distinct results (first %s, last %s); alone the input gives %s'
                                      % (gname, vn, cnt, inp, f[2] if len(f) == 3 else '?', f[0][:80], f[1][:80] if len(f) > 1 else '?', alone),
                                      case_of(out, gname, variant=vn, input=payload, mode='rep', observed=raw[:400], expected=alone), interface='I6')
                elif mode in ('nest', 'nestr'):
                    a, b, k = payload.split(',')
                    ctx.evaluations += 1
                    f = raw.split(' ; ')
                    wa, wb = rs.get(('run', a)), rs.get(('run', b))
                    if len(f) == 2 and f[1] != '-':
                        ctx.nontrivial.add((gname, vn, payload))
                        if (wa is not None and f[0] != wa) or (wb is not None and f[1] != wb):
                            ctx.violation('counterexample', 'grammar %s variant %s: parse of %r on one context with a parse of %r on another context started at its %s #%s: got %s / %s, alone %s / %s'
                                          % (gname, vn, a, b, 'token request' if mode == 'nest' else 'reduction (inside the action, before $n is read)', k, f[0], f[1], wa, wb), case_of(out, gname, variant=vn, input=payload, mode=mode, observed=raw, expected='%s ; %s' % (wa, wb)), interface='I6')
    if not had_counterexample(ctx):
        hd = [d for d in i6_diffs(out) if d['case'].get('mode') == 'hist']
        report_corr(ctx, hd, {'I6'}, 'C15')
    import raceprops
    ctx.extra['concurrent_contexts'] = raceprops.run(ctx)


REGISTRY = {}


def reg(pid, run, proofs, rule, **kw):
    REGISTRY[pid] = dict(run=run, proofs=proofs, rule=rule, **kw)


I6RULE = ('grammars: curated textbook families + seeded random grammars (1-3 terminals, 1-4 nonterminals, rules of length 0-4, precedence declarations) + random operator tables; '
          'inputs: every token string up to the length bound, sentences from random derivations, single-token mutants, an undeclared token code; all five variants '
          '(go, go -u, go -o, go -o -u, typescript) generated by the CLI built from /repo, compiled and run; the Coq model (extracted) is run on the same inputs. ')
BERULE = ('grammars: curated families (LR(0)/SLR/LALR/LR(1) separators, nullable chains, cycles, precedence) + seeded random grammars of four shapes incl. operator tables; '
          'the implementation runs in-process (ParseAndBuild built from /repo, tag verif), the extracted Coq model runs on the implementation\'s own grammar object; '
          'compared: item sets and goto edges up to renumbering, lookahead sets, every dense cell (decoded), warning multiset, every packed lookup. ')


MODEL_NOTE = ('Trusted: Coq 8.16.1 kernel; extraction (ExtrOcamlBasic) + OCaml; coq/extract/driver.ml; the Go harness and python tools; the hand-written model, '
              'whose agreement with /repo is re-checked by the correspondence run of this check on every run. Go/JS compilers and runtimes are outside the model. No axioms '
              '(every Print Assumptions: Closed under the global context).')

reg('C01', run_C01, ['Prop_C01.v'], I6RULE + 'non-trivial = distinct (grammar, input) accepted with at least one reduction; every accepted run is re-executed by the verified checker Oracle.replay',
    technique='Coq theorem (LR driver invariant over the constructed automaton) + verified replay checker run on every accepted parse of the real generated parsers + model/implementation correspondence',
    level_text='Proved in Coq for every grammar, lookahead function, precedence assignment and token string: the table generated from the constructed LR(0) automaton drives the LR machine so that an accepted input has a parse tree with root = start symbol, yield = the input, post-order = the reductions (C01_table_sound); the array-and-pointer driver of the templates equals the abstract machine (C01_go_driver); the same for the whole model pipeline as it is run: grammar object -> automaton -> lookaheads -> resolved table -> packed arrays -> array driver, in all variants (C01_pipeline); the replay checker that is run on every accepted parse of the real five variants is sound (C01_replay_checker). The model pipeline (the functions of the theorems, extracted) is compared with /repo stage by stage (tokens, AST, grammar object, LR(0), lookaheads, table, packed lookup, generated parsers) and end to end from the bytes of the grammar file on every run. From the bytes of the file with no side condition: the well-formedness of every grammar object the front end delivers is itself proved (C01_front_delivers_wellformed: FrontWf.front_wf for every AST, ParsedNames.parse_text_lhs for every text - the attempt to prove it found defect F26), so C01_from_the_text states soundness for every text on which the model of the whole generator delivers tables.',
    level_note=MODEL_NOTE)
reg('C02', run_C02, ['Prop_C02.v'], I6RULE + 'non-trivial = distinct (grammar, sentence) of grammars whose model table has no cell with two candidates',
    technique='Coq theorem (completeness of the LALR table by induction on parse trees, lookahead-annotated certificate) + sentences of conflict-free grammars fed to the real parsers + correspondence at I2-I6',
    level_text='Proved in Coq: for the automaton built by the model, the executable DeRemer-Pennello lookaheads and the generated table, if no cell has two candidate actions then the LR machine accepts the yield of every valid parse tree with exactly its post-order as reductions (C02_complete), and so does the model pipeline as run, through the packed arrays and the array driver in every variant (C02_pipeline). The real parsers (5 variants) are run on every sentence up to the length bound and on sampled longer ones of every conflict-free corpus grammar; a rejected sentence is the failing input. C02_from_the_text: the same from the bytes of the file, the well-formedness of the grammar object being proved (C01_front_delivers_wellformed), not assumed.',
    level_note=MODEL_NOTE + ' The hypotheses of C02_complete (grammar well-formedness facts, productivity) are proved of every grammar object the front-end model delivers (C02_from_the_text, C01_front_delivers_wellformed) and evaluated on the implementation\'s object on every run (wfcheck).')
reg('C03', run_C03, ['Prop_C03.v'], BERULE + 'non-trivial = grammars with >= 2 reductions one of which has >= 2 lookaheads; plus the real Digraph on random relations with cycles',
    technique='Coq theorem (executable DeRemer-Pennello sets = LR(1) lookaheads over all access paths, both inclusions) + comparison of the implementation\'s LA sets and warnings with the proved model on every corpus grammar',
    level_text="Proved in Coq (C03_lookahead): for every grammar meeting the well-formedness facts, the model's lookahead list of every reduction in every state equals {t | exists access path gamma to the state with the LR(1) item [A -> alpha ., t] valid for gamma}, i.e. the union over the canonical LR(1) states with that core; the same for the lookahead sets the model pipeline actually computes and feeds to the table generator (C03_pipeline); a warning is recorded for a cell of the pipeline's tables exactly when its candidate actions - the shift and the reductions whose lookahead set contains the symbol - meet a pair in the pairwise resolution that lacks a precedence, and such a cell has at least two candidates, i.e. is an LALR(1) conflict (C03_warning, C03_warning_pipeline, C03_warning_needs_conflict). The implementation's LA sets and warning multiset are compared with the model on every corpus grammar; the real Digraph/Traverse/Union runs against transitive union on random relations with cycles (slices built as yaccgo builds them). C03_from_the_text: the lookahead sets computed for the grammar object built from a text are exactly the LALR(1) sets, with no hypothesis on the object (its well-formedness is proved: C01_front_delivers_wellformed).",
    level_note=MODEL_NOTE + ' Digraph is modelled as transitive union (saturation), the SCC bookkeeping of Traverse is tied by the differential run only.')
reg('C04', run_C04, ['Prop_C04.v'], BERULE + 'non-trivial = grammars with precedence declarations; plus every pair of the finite (type, prec, assoc, index) grid through ResolveConflict/UseDefaultResolveConflict',
    technique='Coq theorems (resolution function by cases; every cell of the emitted table = resolution of its candidates; two-way conflict cells of the emitted table; which symbol gives a rule its precedence) + exhaustive differential run of the exported ResolveConflict/UseDefaultResolveConflict + dense-cell comparison with the model + rule precedence read back against the declarations + values of real expression parsers',
    level_text="Proved in Coq for all precedences/associativities/indices: shift/reduce with precedence on both sides (higher wins; equal: left reduces, right shifts, nonassoc is an error; no warning), shift/reduce default = shift with warning, reduce/reduce default = the earlier rule with warning (C04_sr_prec, C04_sr_same_level, C04_sr_default, C04_rr_default); at the level of the emitted tables every cell, read as the generated parsers read it, is the pairwise resolution of its candidate actions, hence the same three statements for every two-way conflict cell of the emitted table (C04_pipeline_cell, C04_pipeline_sr_prec, C04_pipeline_sr_default, C04_pipeline_rr_default); a rule carries the precedence of the symbol named by %prec (none if that symbol has no level), else of its last right-hand-side symbol with a level (C04_rule_precedence). The exported Go functions are run on the complete finite grid against the model; every dense cell and the warning multiset of every corpus grammar are compared with the model; rule and terminal precedences as the implementation reads them from files (alternatives grouped with |, %prec anywhere, tokens without a level) are compared with the declarations. Whole-expression grouping (the last sentence of the property) is covered by comparing the values computed by the real expression parsers with the model's (evaluation, not a theorem: partial). C04_from_the_text: the same statement for the matrix computed from the bytes of a grammar file, with no hypothesis on the grammar object.",
    level_note=MODEL_NOTE)
reg('C05', run_C05, ['Prop_C05.v'], BERULE + 'evaluations = cells looked up through the packed arrays + random matrices through PackTable/UnPackTable + packed vs -u parser runs; non-trivial = grammars with a non-error default, matrices with an empty leading column',
    technique='Coq theorem (first-fit row displacement with check vector is lossless for every matrix and row order) + every (state,symbol) lookup through the implementation\'s packed arrays vs its dense table + random matrices through PackTable/UnPackTable + packed vs -u parsers',
    level_text="Proved in Coq for every matrix and every duplicate-free row order: lookup through the packed arrays returns the cell (C05_lookup_core, C05_lookup), unpacking the packed arrays gives back the matrix (C05_pack_roundtrip); for every table generate_tables emits no cell is 0 and the start-symbol column holds the error code (C05_conditions_hold), so its packed lookups equal its dense cells as soon as no goto column can land on a negative slot - one boolean condition on the offset vector (C05_packed_agrees_offsets, C05_packed_agrees) - and then the packed and dense parsers agree on every input (C08_variants). On every run every cell of every corpus grammar (incl. tables with more than 64 columns and more than 256 productions) is looked up through the implementation's own packed arrays (template Action() logic) and compared with GTable, the conditions of the theorem are evaluated on the implementation's arrays, random matrices go through utils.PackTable/UnPackTable, and packed vs -u generated parsers are compared on all inputs. C05_from_the_text: for every text, the packed lookups equal the matrix cells under the offset condition alone. C05_offsets_from_actions / C05_from_the_text_actions: the offset condition itself follows, for every matrix, from the two proved conditions once every row has a non-error cell in a terminal column (that cell, or the error code of column 0, differs from the row default and is therefore stored at offset + column >= 0 with column <= NTERMINALS), so from the bytes of the file the packed lookups equal the matrix under a statement about the matrix alone; not every emitted table meets that hypothesis (%nonassoc can leave a state with error actions only and gotos - curated grammar all_error_row), so the offset condition stays evaluated on the arrays of every run.",
    level_note=MODEL_NOTE)
reg('C06', run_C06, ['Prop_C06.v'], I6RULE + 'evaluations = rejected runs; non-trivial = distinct (conflict-free grammar, non-sentence) whose error position is compared with an Earley viable-prefix computation',
    technique='Coq theorems (no Crash / nil return under the table certificate; a token is shifted only if input-so-far plus that token begins a sentence: soundness of LR(1) items over access paths + parse trees on the stack + productivity) + outcome classification and fetch count of every rejected run of the real parsers vs Earley viable-prefix computation and the model',
    level_text='Proved in Coq: under the certificate satisfied by generated tables the LR machine never ends in Crash or a nil return; it accepts, reports a syntax error or is still running (C06_no_crash), also for the model pipeline as run in every variant (C06_pipeline); and the error is reported at the first bad token: after any number of steps from the initial configuration, for ANY table satisfying the certificate (any lookahead sets, any precedences), if the next action shifts the next token then the input read so far followed by that token begins a sentence - so a token that cannot continue any sentence is never shifted, and because an Error cell stops the machine, nothing after it is requested (C06_never_shifts_a_bad_token, via C06_shift_extends_viable_prefix: the stack symbols plus a shiftable symbol are a viable prefix; C06_step_is_run ties the step function to the machine of the other theorems). Every rejected run of the five real variants must use the documented error channel; for conflict-free grammars the number of tokens requested at the error must be (first token that cannot continue a sentence)+1 as computed by an Earley recogniser; every accepted run is re-executed by the verified checker. Halting on non-sentences (finitely many reductions before the error) is checked by a reduction limit, not proved (partial). C06_from_the_text: the same for the table computed from the bytes of a grammar file, every hypothesis (table certificate, well-formed grammar object, every symbol productive) discharged for every text on which the generator model delivers tables. C06_no_crash_from_the_text: for the tables computed from a text, no variant crashes or returns nil on any input (the only hypothesis left is the agreement of the packed lookups with the matrix, C05).',
    level_note=MODEL_NOTE + ' The Earley recogniser (python) is untrusted search: a case it flags is confirmed against the model.')
reg('C07', run_C07, ['Prop_C07.v'], I6RULE + 'actions: $$ = (c + sum coef_i*$i) mod 1000003 with random coefficients and random union fields per symbol; non-trivial = accepted inputs whose derivation uses a rule of length >= 2',
    technique='Coq theorem (value returned = bottom-up evaluation over the parse tree, Dollar slice addressing for every rule length) + verified replay of every accepted run of the real parsers with random linear actions',
    level_text="Proved in Coq: an accepted run returns veval of the parse tree whose post-order is the reduction sequence, for rules of every length including 0 (C07_values), also for the model pipeline as run in every variant (C07_pipeline); the replay checker is sound (C07_replay_checker); the action code of production i is taken from entry i-1 of the rule list of the grammar file and the front-end model keeps the two aligned (C07_action_alignment), with the last action body of an alternative as its action (C04_rule_precedence states both). Every accepted run of the five real variants with random linear actions (incl. rules with 10-13 symbols reading $10..$13, alternatives sharing their action text, duplicate productions) and random union fields is replayed by the extracted checker and its value compared with the model's. C07_from_the_text: the same for the tables computed from the bytes of a grammar file; the hypothesis that every reduction finds a goto is itself proved of every emitted table (C07_goto_after_reduce).",
    level_note=MODEL_NOTE + ' User actions are modelled as pure functions of the $n values.')
reg('C08', run_C08, ['Prop_C08.v'], I6RULE + 'evaluations = (grammar, job, variant pair) comparisons of verdict, reductions with fetch stamps, value, fetch count; non-trivial = jobs with an accepted parse',
    technique='Coq theorem (array-and-pointer driver simulates the abstract machine; packed lookup = dense cell) + pairwise comparison of the five real variants on identical inputs',
    level_text='Proved in Coq: the concrete driver shared by all templates equals the abstract machine on every table/input/fuel (C08_array_driver), packed lookup equals the dense cell (C08_packed_lookup), and the five variants of the model pipeline give the same verdict, reductions and value on every input (C08_variants). All five real variants are compared pairwise on every corpus input (verdict class, reductions with fetch stamps, value, fetch count). C08_from_the_text: the same for the tables computed from the bytes of a grammar file, with no hypothesis on the grammar object.',
    level_note=MODEL_NOTE)
reg('C09', run_C09, ['Prop_C09.v'], BERULE + 'non-trivial = grammars with >= 4 states and a state with >= 2 kernel items',
    technique='Coq theorems about the executable closure/goto worklist (structure, closure completeness, goto completeness, reachability) + implementation automaton compared with the model up to renumbering',
    level_text="Proved in Coq for the executable worklist construction: items of a target are advanced items or closure items, state 0 is the closure of the start item, the start item occurs only in state 0, items valid and duplicate-free, every edge justified, every state reachable (C09_structural, C09_more), closure closed under prediction (C09_closure_complete), every symbol after a dot has an edge (C09_goto_complete), no two states have the same item list (C09_no_duplicate_states), and every edge leads to the state whose items are the closure of the advanced items (C09_canonical_edges). The implementation's LR0Closure is compared with the model as a set of item sets with goto edges (bijection through item sets, state 0 fixed) and checked for duplicate states. C09_from_the_text: the same for the automaton built from the bytes of a grammar file, with no hypothesis on the grammar object.",
    level_note=MODEL_NOTE)
reg('C15', run_C15, ['Prop_C15.v'], I6RULE + 'histories: 2-6 parses in a row on one parser (ParserInit before each; one shared context in object mode) compared with the same parses alone; nested parses started from inside GetToken and from inside an action before $n is read (second context in object mode, PushContex/PopContex in default mode); the harness lexer counts tokens in the value record it is handed; concurrent: every -o parser of 4/16 grammars x 6 goroutines with a context each x 30/300 rounds over ~20 inputs under `go build -race`, every result compared with the same parse alone, any DATA RACE report is a violation. non-trivial = histories mixing accepted and rejected inputs, nested runs that happened, accepted inputs of the concurrent run',
    technique='Coq theorems (re-initialisation; histories of any length; cell 0 never overwritten; small-step driver = driver; any interleaving of steps on distinct contexts = each alone; refuted for one shared stack) + parse histories, nested parses (from the lexer and from inside actions, both modes) and concurrent goroutines on distinct contexts under the Go race detector, compared with the same parses alone and with the model',
    level_text="Proved in Coq: after ParserInit the run equals the run from the fresh state (C15_reinit_global, C15_reinit_object); no run overwrites cell 0 of the stack array (C15_cell0_preserved), so for histories of any length, accepted and rejected inputs mixed, in global and object mode, the results are those of the same parses on a fresh parser (C15_histories); the driver in small steps is the driver (C15_small_steps), and for every schedule of steps over any number of contexts each context is where it would be alone after its own steps and reports what the abstract machine reports for its own input (C15_interleaving, C15_contexts_independent); with one shared stack the statement is false (C15_shared_stack_refuted), so it separates the designs. Tie to the code on every run: histories of 2-6 parses, parses started in the middle of another parse (from GetToken and from inside an action; on a second context in object mode, through PushContex/PopContex in default mode), a lexer that relies on the value record starting out zero, and 6 goroutines per parser with a context each running at the same time under Go's race detector. Partial: the Go memory model is outside the Coq model; the race detector is trusted for the absence of shared writes on the executions it sees.",
    level_note=MODEL_NOTE)

reg('C19', cliprops.run_C19, ['Prop_C19.v'], 'fault enumeration: one or more failing inputs per kind of input-caused failure (lexical: stray character, unclosed comment, unbalanced action, bad character literal, unclosed prologue; syntax: missing %%, stray number, %type without tag, %prec without symbol; undefined symbol; undefined start symbol; %type without rule; unproductive nonterminal; $n too big / zero / on an empty rule / on an untyped symbol / in a late rule) x {go, go -u, go -o, go -o -u, typescript} through the CLI built from /repo with a pre-existing output file: exit status and bytes afterwards; successful generations over no file and over a longer pre-existing file must be byte-identical and end with the epilogue; FsModel.predict (extracted) is compared with each observation. non-trivial = distinct (fault kind, target)',
    technique='Coq theorem over the step model of the generators (create after every fallible step; create truncates) + fault enumeration through the real CLI with a pre-existing file, compared with the model prediction',
    level_text='Proved in Coq over FsModel (the step sequence of TemplateGenFromString/TsGenFromString): a failure at any input-caused step leaves every path untouched (C19_atomic); a success leaves exactly the generated text at the output path and touches nothing else (C19_complete); success iff no step fails (C19_success_iff); on the model of the action substitution the input-caused failures inside actions (value of an untyped left-hand side, references out of range or to untyped symbols) stop the generation in the reduce-function step, i.e. before the file is created (C19_untyped_self_stops, C16_action_reference). The tie to the code is a fault enumeration on every run: every kind of input-caused failure x five targets through the real CLI with a pre-existing file (bytes and exit status), the model of the substitution must stop exactly on the action faults, plus successful generations over a longer pre-existing file compared byte-for-byte with a fresh generation.',
    level_note=MODEL_NOTE + ' os.Create/Write failures (permissions, disk full) are not input-caused and not modelled. TooManyStates (>2000 states) is not in the fault list.')
reg('C14', cliprops.run_C14, ['Prop_C14.v'], 'repeated runs: every corpus grammar (curated families, seeded random grammars with many auto-numbered tokens / many states / nullable cycles / precedences, operator tables, a hand-written includes-cycle grammar, the repo examples) x {go, go -u, go -o, go -o -u, typescript} is generated N times (quick 6, thorough 40) by the CLI built from /repo in separate processes (Go re-randomises map iteration per process and per range statement); outputs compared byte for byte. non-trivial = distinct (grammar, target) that generate successfully',
    technique='Coq theorems (sorting removes dependence on iteration order; table generation depends on lookahead sets only as sets; identifier table order irrelevant after sorting) + N repeated CLI runs per grammar and option set in separate processes + sequences of generations inside one process, all compared byte for byte',
    level_text="Proved in Coq: a stable insertion sort over a total order gives the same list for every permutation of its input (C14_sort_independent, C14_sorted_names: the name order is total, transitive and antisymmetric), the generated table depends on the lookahead lists only through membership (C14_lookahead_sets_as_sets) and the identifier table only through its sorted content (C14_identifier_table_order). Whether every map-iteration site of the Go code is of that kind is not proved; it is checked on every run by generating every corpus grammar N times in separate processes for all five targets and comparing bytes (the schedule = Go's per-process map order), and by running 3-6 generations with different option sets inside one process and comparing each with the output of a fresh process. Partial: only Permutation-orders are modelled.",
    level_note=MODEL_NOTE + ' Scheduler/allocator effects are outside the model (none are used by yaccgo).')
reg('C13', cliprops.run_C13, ['Prop_C13.v'], "texts: every prefix (quick: a random sample of cut points; thorough: all) of the repo examples, curated grammars and a feature-rich hand-written grammar; 120/1500 random byte edits each (delete, insert of structural tokens, duplicate, bit flip, random byte, swap); a list of truncations ending right after a construct that waits for more tokens; inputs with non-ASCII letters and digits; 150/2000 whole random grammars with %nonassoc/%precedence operators and pasted duplicate alternatives (crowded table cells, unit cycles). Each text goes through generate go, generate typescript and debug in-process under a 4 s deadline per entry point (normal: milliseconds) and a sample through the real CLI in separate processes under 6 s; the Coq lexer and parser models run on the same texts and are compared with the real lexer's tokens and the real parser's AST. non-trivial = texts on which at least one entry point stops with a diagnostic",
    technique='Coq theorems (lexer model: progress per visit, fuel |input|+1 suffices; parser model: every loop leaves on EOF/Error or moves on, fuel 2|tokens|+8 suffices; the whole model generator never answers out-of-fuel) + deadline runs of generate/debug on prefixes, random edits and conflict-heavy grammars + lexer and parser models against the real lexer and parser on the same texts',
    level_text="Proved in Coq: every visit of the lexer's root state consumes input (C13_lexer_progress), so the lexer model never runs out of its fuel and its token list is bounded by |input|+2 (C13_lexer_total, C13_lexer_fuel_irrelevant, C13_token_bound); the parser model - every loop of Parser.go on fuel, the three-slot look-back buffer as it is - never runs out of the fuel 2|tokens|+8 (C13_parser_total, C13_parser_fuel: measure = tokens still to be delivered + 1 while the current token is not EOF/Error); hence the model of the whole generator answers on every byte string with a verdict, a refusal, the state limit or tables (C13_generator_answers). The later stages are bounded by construction (2000-state cap, sweeps bounded by |rules|+1, saturation bounded by the size of the relation). The tie to the Go code: lexer and parser models are compared with Lex.go/Parser.go on every text of the run, and every text goes through generate go / generate typescript / debug under a deadline; conflict resolution, which the model does by structural recursion, is exercised with crowded table cells. Partial: goroutine scheduling and the Go runtime are outside the model.",
    level_note=MODEL_NOTE)

reg('C10', frontprops.run_C10, ['Prop_C10.v'], 'abstract specifications (curated families + seeded random grammars with every printable character literal, names that start with directive words, actions with nested braces / comments / strings, explicit token numbers, re-declarations, tokens declared only through precedence lines or only used in rules, optional %start, missing epilogue, prologue and union containing grammar-like text) x 6 (quick) / 24 (thorough) renderings each: single spaces, one token per line, no optional space at all, random blanks/tabs/newlines with // and /* */ comments (incl. runs of stars) between every pair of tokens, with and without ; terminators, alternatives grouped with |. Compared: what the implementation read back (rules in order with symbols, %prec and action text; start symbol; tags; fixed codes; precedence levels; prologue/union/epilogue bytes) with the specification that was rendered, and all renderings of one specification with each other; the Coq visitor model runs on the implementation\'s AST. non-trivial = renderings that contain comments',
    technique="Coq theorems (lexer model: tokens of every rendering of a token document; parser model: a token list that spells out a specification is read back into exactly that specification; both together: text -> AST for every layout; visitor: rules handed on as written) + specification/rendering round trip through the real front end + Coq lexer, parser and visitor models against the implementation's tokens, AST and grammar object on every rendering",
    level_text="Proved in Coq for the lexer and parser models that are compared with Lex.go / Parser.go on every run: for every well-formed token document (identifiers, numbers, punctuation, %% marks, character literals, brace-balanced actions, directives, %union bodies and %{ %} prologues carried byte for byte; separated by any blanks, // comments and /* */ comments incl. star runs) lex (render d) = the tokens of d (C10_lexer_roundtrip); a token list that spells out a specification - %token/%left/%right/%nonassoc/%precedence/%type/%start/%union/%{ %} lines in any order with optional tags and numbers, rule groups with any number of alternatives, symbols, character literals, %prec annotations anywhere in an alternative, action bodies, each group closed by `;` or not - is parsed into spec_ast: the declaration lines in order, one rule per alternative in order with exactly its symbols, actions and %prec symbol, the literals first used in rules, the epilogue text (C10_parser_roundtrip: only kinds and values of tokens matter, the three-slot look-back buffer of Parser.go is modelled as it is); together: parse_text (render d) = the AST of the specification for every layout, and two layouts of the same tokens give the same result (C10_text_roundtrip, C10_layout_irrelevant, with a concrete grammar in two layouts as C10_text_roundtrip_example); the visitor keeps rules, symbols, %prec and actions in order as written (C10_rules_as_written). The tie to the Go code and to the property's specification-level reading is checked on every run by rendering random specifications under random layouts: the real front end's read-back is compared with the specification, renderings with each other, and lexer, parser and visitor models with the implementation's tokens, AST and identifier table.",
    level_note=MODEL_NOTE + ' Dialect restrictions are explicit in the generator and in the theorems (DESIGN 5.C10): brace-balanced action/union bodies, a literal never directly after a bare identifier in a %token line (it would be its alias: titems_ok), %type with a tag and at least one name, %union followed by blanks then { then white space; token aliases and the string-literal token kind are outside the specification language of the theorems (they are in the executable model and in the comparison).')
reg('C11', frontprops.run_C11, ['Prop_C11.v'], 'declaration mixes: seeded random grammars with 3-9 terminals declared in every way (tagged/untagged %token lines, several per line, explicit numbers: small, > 255, negative, inside the range the automatic numbering walks through, re-declared in a second %token line, character literals declared / only in precedence lines / only in rules, aliases), distinct explicit numbers. Checked on the implementation: the verified checker Front.valid_codes (extracted) on the AST declarations and the final identifier table; emitted `const NAME = n` lines and the translate switch of both generated files (Go, TypeScript) against the grammar\'s terminals. non-trivial = mixes with both automatically numbered and explicitly numbered named tokens',
    technique="Coq-verified checker (valid_codes_sound) + theorem that the visitor model's numbering always passes it + model of the translate switch with its specification + checker run on the implementation's identifier table + emitted constants/translate parsed from both generated targets + Coq visitor model on the implementation AST",
    level_text="Proved in Coq: any code table accepted by valid_codes keeps every fixed code, gives every other token a code outside the fixed codes and different from -1, and is duplicate-free when the fixed codes are (C11_checker_sound); the model of the visitor's numbering always produces a table that passes valid_codes (C11_codes_model, C11_codes); the model of the generated translate switch maps, when the terminals' codes are pairwise different, every token code to its own grammar symbol, -1 to the end marker and every other integer to the error default (C11_translate, C11_translate_end_marker). The extracted checker also runs on the implementation's own declarations and final table for every declaration mix; the emitted constants and the translate switch of the generated Go and TypeScript files are parsed and compared with the grammar's terminals (every named token has its constant, every code maps to its own symbol, -1 to the end marker, nothing else listed); the Coq visitor model is compared with the implementation on every AST. C11_unknown_code_from_the_text: for every text, the column unknown codes are sent to is the error action in every state.",
    level_note=MODEL_NOTE)
reg('C12', frontprops.run_C12, ['Prop_C12.v'], 'seeded random usable grammars with one planted defect each: undefined symbol anywhere in a right-hand side; nonterminal without terminal derivation through left recursion, right recursion, mutual recursion, two recursive rules, unreachable, at the start symbol; %type name without rule; %start without rule; and the accept side: productive only through an empty rule, productive through a chain of unit rules listed in the unfavourable order, no defect. Compared: refusal and its reason (from the panic text) with the planted defect, and with the Coq front-end model run on the implementation\'s AST. non-trivial = grammars that must be refused',
    technique='Coq theorem (the sweep-until-stable loop computes exactly the productive symbols) + planted-defect grammars through the real front end + Coq front-end model (visit, build_grammar) on the implementation AST',
    level_text='Proved in Coq: the fixpoint loop of CalculateCanTerminate/CalculateEpsilonClosure as modelled computes exactly the inductive predicate "derives a terminal string", with fuel |rules|+1 shown sufficient (C12_productive, C12_unproductive_exact); build_grammar and visit refuse exactly in the listed cases (undefined symbol, %type/%start name without rule, unproductive nonterminal, unknown %prec symbol) and otherwise return a grammar (C12_build_cases, C12_visit_cases); the only other refusal, \'too many states\', happens exactly when the LR(0) collection has 2000 states or more, and below that the worklist\'s fuel is irrelevant (C12_state_limit, C12_below_limit, C12_delivered_below_limit). The model is compared with the implementation on every run on grammars with planted defects of every kind and position (the planted nonterminal is sometimes called `start`), and the implementation\'s verdict is compared with the planted defect itself. What is delivered when nothing is refused is well-formed (C12_delivered_is_wellformed): rule 0 is start -> S, right-hand sides use symbols of the file only (a name that stands for the end marker - a token declared with the code -1 - is refused in a rule, F26), the end marker heads no rule.',
    level_note=MODEL_NOTE + ' The 2000-state boundary is exercised on the implementation only (1999 states processed, 2000 refused); the model is characterised at that boundary by C12_state_limit but not run there.')

reg('C16', genprops.run_C16, ['Prop_C16.v'], 'grammars: curated families, one grammar per group of literal characters covering every printable special character (quotes, backslash-free, %, $, braces, bar, space, backquote), seeded random grammars (operator tables, many literals, long rules and many alternatives, empty rules, precedences), declaration mixes; actions drawn from a pool that uses $$ and $n with typed symbols and contains %, format strings, block and line comments, strings with braces and quotes, raw strings, nested blocks; minimal prologue (package + import fmt / "use strict") and epilogue (GetToken). Every output path holds a longer, older file before generation (regenerate in place). Every file the CLI built from /repo reports as generated is compiled: the four Go variants as packages of one module through `go vet` (type check) and `go build`, the TypeScript variant loaded by node >= 22 with type stripping. non-trivial = (grammar, variant) pairs that the generator accepted',
    technique='Coq theorems on the text fragments the builder pastes (rule comment cannot be closed by action text; translate case labels distinct; the action substitution pastes dollar-free text unchanged and emits for a reference exactly the field of that symbol) + model of the action substitution against the emitted code of every action + go vet/go build/node on every generated file of a corpus stressing names, literals, actions and rule shapes',
    level_text="Proved in Coq: the rule comment built from any action text contains no comment terminator and shows terminator-free text unchanged (C16_comment_safe, C16_comment_faithful); the case labels of translate are pairwise distinct when the code table passes the verified checker (C16_translate_cases_distinct); the model of actionCodeReplace pastes an action without dollar signs unchanged and emits for $n exactly `Dollar[n].<tag of symbol n>` when n is in range and typed, stopping the generation otherwise (C16_action_plain, C16_action_reference, C16_action_example); across the layers, an action body as the lexer cuts it out is brace-balanced and the substitution keeps the nesting, so the code pasted into one case of the reduce function cannot close the function or swallow the next case (C16_action_token_balanced, C16_substitution_keeps_nesting, C16_emitted_action_balanced). Acceptance of the whole file by the Go type checker / a JavaScript engine is runtime behaviour no Coq model exhibits (partial): it is decided on every run by compiling every generated file of the corpus in all five variants; compiler diagnostics are the failing evidence. On every run the code emitted for every action of the corpus (default Go variant and TypeScript) is compared with the model of the substitution run on the implementation's own action text and tags; every output path holds a longer older file before generation.",
    level_note=MODEL_NOTE + ' go vet/go build and node (type stripping, no type check: no tsc in the sandbox) are trusted for the verdict on each file. Guard: token names are identifiers of the target language that are not keywords or template names.')
reg('C17', genprops.run_C17, ['Prop_C17.v'], I6RULE + 'trace jobs: sentences and short strings run with IsTrace = true in the four Go variants; every printed line is parsed and the printed run is replayed on the implementation\'s own GTable (token read, state pushed, lookahead, rule text from the grammar, goto state, goto push after every reduction), the printed reductions are compared with those the actions recorded in the same run, and the run must be traced up to the accept or error cell. non-trivial = traced runs with at least one reduction',
    technique='Coq theorems on the traced LR machine (printed reductions = performed reductions; the printed run replays on the table) + replay of every real trace on the implementation\'s own table',
    level_text="Proved in Coq for the traced machine (one Shift event per push, one Reduce event per reduction before its goto push): the reductions printed are exactly the reductions performed for accepted and rejected inputs (C17_trace_reductions), and the printed run replays on the table, i.e. is a legal run of the automaton on the input (C17_trace_legal); the text printed for production i is taken from entry i-1 of the rule list of the grammar file, and the front-end model keeps the two aligned - production i+1 of the grammar object is built from list entry i, same symbols by name (C17_rule_text_alignment). The real traces of the four Go variants are parsed and replayed on the implementation's own table on every run, the printed rule text is compared with the production the table cell names (grammars with duplicate productions included), and the lookahead of every reduction is checked.",
    level_note=MODEL_NOTE + ' The traced machine is the abstract list-stack machine; its equality with the array driver is C08_array_driver.')
reg('C18', genprops.run_C18, ['Prop_C18.v'], BERULE + 'in-process run with DebugFlags on (the `debug` listing on stdout) and DrawGrammar on the table of the same run; the listing is parsed back into states, items, transitions and lookahead sets and compared with LR0Closure, GTable and LookAheadSet of that run; the DOT text is parsed back into nodes (items, reduce annotations, accept mark) and edges and compared with GTable cell by cell. non-trivial = grammars whose table has both reductions and an accepting state',
    technique="Coq model of DrawGrammar with theorems (edges = shifts/gotos, reduce lines = reductions with their lookahead symbol, accept mark = accepting state, nodes = states with their items, for the tables of one run; listing covers the tables) + listing and DOT graph parsed back and compared with automaton, lookahead sets, table and the model's diagram of the same run",
    level_text="Proved in Coq for the model of DrawGrammar (Draw.v) on the automaton and dense matrix of one generate_tables run, read as every generated parser reads it: one node per state numbered as in the table with that state's items, an edge exactly for every shift/goto, a reduce line exactly for every reduction under its lookahead symbol, the accepting mark exactly where the table accepts (C18_diagram_edges, C18_diagram_nodes, C18_diagram_pipeline); the content of the listing (automaton, transitions, lookahead sets) covers the tables: every shift/goto is a listed transition, every reduction a complete item under a symbol of its listed lookahead set (C18_listing_covers_tables; the converse fails exactly where conflict resolution dropped an action); for the model of EscapeDotGraph: escaped names read back, every record metacharacter is protected, and the fields of a label are recovered whatever the names contain (C18_escape_roundtrip, C18_escape_protected, C18_label_fields; C18_label_injective is the older statement for separator-free fields). On every run the extracted model diagram is computed from the implementation's own table and compared with the DOT text parsed back (nodes, record fields, edges, marks), the real EscapeDotGraph is compared with the model on symbol names and metacharacter-rich strings, and the debug listing is parsed back and compared with LR0Closure, LookAheadSet and GTable of that run.",
    level_note=MODEL_NOTE + ' `dot` is not installed: SaveGraph is not exercised, the DOT text is taken from DrawGrammar(...).String().')

NOT_CLAIMED = {}
