#!/usr/bin/env python3
"""addprop.py <Prop file id> <theorem name> <lemma> <imports> <comment> : appends a theorem restating <lemma> (statement printed by Coq)."""
import subprocess, sys
COQ = '/verif/coq'
pid, name, lemma, imports, comment = sys.argv[1:6]
src = 'From Coq Require Import List Arith ZArith Bool Permutation.\nImport ListNotations.\nFrom YG Require Import %s.\nClose Scope Z_scope.\nOpen Scope nat_scope.\nSet Printing Width 110.\nSet Printing Depth 1000.\nCheck %s.\n' % (imports, lemma)
open('/tmp/_mk.v', 'w').write(src)
r = subprocess.run(['coqc', '-Q', COQ + '/theories', 'YG', '/tmp/_mk.v'], capture_output=True, text=True, cwd=COQ)
out = r.stdout
assert r.returncode == 0, r.stderr
st = out[out.index(':') + 1:].strip()
blk = '\nFrom YG Require Import %s.\nClose Scope Z_scope.\nOpen Scope nat_scope.\n\n(* %s *)\nTheorem %s :\n  %s.\nProof. exact %s. Qed.\nPrint Assumptions %s.\n' % (imports, comment, name, st.replace('\n', '\n  '), lemma, name)
open(COQ + '/theories/Prop_%s.v' % pid, 'a').write(blk)
print('added', name)
