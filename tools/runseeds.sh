#!/bin/bash
# usage: runseeds.sh <logfile> seed...
log=$1; shift
cd "$(dirname "$0")/.."
for s in "$@"; do python3 tools/seedcheck.py run $s 2>&1 | grep -v WARN | cut -c1-220 >> $log; done
