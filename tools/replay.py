#!/usr/bin/env python3
"""./check <Cxx> --replay <file>: re-runs the case stored in a replay file against the current tree and prints what the
implementation and the model say now.  Exit 1 (with a VIOLATION line naming the same replay file) if the case still
shows a difference or a failure, 0 otherwise."""
import json, os, shutil, subprocess, sys
sys.path.insert(0, os.path.dirname(os.path.abspath(__file__)))
import vlib, backend, genrun, lexmodel, parsemodel, cliprops

FLAGS = {'gp': [], 'gu': ['-u'], 'op': ['-o'], 'ou': ['-o', '-u']}


class Sink:
    def __init__(self):
        self.v = []

    def violation(self, kind, what, case, interface=None):
        self.v.append(what)


def replay(pid, path):
    rep = json.load(open(path))
    print('replaying %s (%s): %s' % (path, rep.get('interface'), rep.get('what', '')[:200]))
    work = os.path.join(vlib.WORK, 'replay-%d' % os.getpid())
    shutil.rmtree(work, ignore_errors=True)
    os.makedirs(work)
    bad = []
    try:
        bindir = vlib.build_impl()
        if rep.get('text') is not None:
            b = rep['text'].encode('latin1')
            p = os.path.join(work, 'in.y')
            open(p, 'wb').write(b)
            o = cliprops.run_gen([p], 5000)[0]
            print('generators:', {k: o.get(k) for k in ('go', 'ts', 'debug', 'timeout', 'stage', 'crash')})
            if o.get('timeout') or o.get('crash'):
                bad.append('does not terminate / dies: %s' % o)
            s = Sink()
            print('lexer model :', lexmodel.compare(s, [b], [p]))
            print('parser model:', parsemodel.compare(s, [b], [p]))
            bad += s.v
        elif rep.get('mode') == 'concurrent':
            import raceprops
            s = Sink()
            s.seed, s.quick, s.evaluations, s.nontrivial = int(os.environ.get('VERIF_SEED', '1')), True, 0, set()
            print('concurrent contexts under the race detector:', raceprops.run(s))
            bad += s.v
        elif rep.get('fault') is not None and rep.get('target') is not None and rep.get('grammar_text') is not None:
            # C19: the same generation over a pre-existing file; exit 0 with a complete file, or a failure with the file untouched
            args, ext = next((a, e) for (tn, a, e) in cliprops.TARGETS if tn == rep['target'])
            src, out = os.path.join(work, 'in.y'), os.path.join(work, 'out' + ext)
            open(src, 'w').write(rep['grammar_text'])
            pre = '// PRE-EXISTING FILE\n' + 'keep me\n' * 4000
            open(out, 'w').write(pre)
            try:
                r = subprocess.run([os.path.join(bindir, 'yaccgo')] + args + [src, out], capture_output=True, text=True, timeout=30)
                rc = r.returncode
            except subprocess.TimeoutExpired:
                rc = None
            after = open(out).read() if os.path.exists(out) else None
            epi = rep['grammar_text'].split('%%', 2)[2] if rep['grammar_text'].count('%%') >= 2 else ''
            print('yaccgo %s: exit %s, file afterwards: %s' % (' '.join(args), rc, 'untouched' if after == pre else ('removed' if after is None else '%d bytes' % len(after))))
            if rc == 0 and (after is None or after == pre or not after.rstrip('\n').endswith(epi.rstrip('\n'))):
                bad.append('exit 0 without a complete output')
            elif rc != 0 and after != pre:
                bad.append('failure (exit %s) but the pre-existing file was changed' % rc)
        elif rep.get('grammar_text') is not None:
            t = rep['grammar_text']
            p = os.path.join(work, 'g.y')
            open(p, 'w').write(t)
            res = backend.run([('replay', p, None)])
            d, m, diffs, v = res['replay']
            if m is None:
                print('implementation refuses the grammar:', d.get('panic') or d.get('err') or d.get('timeout'))
            else:
                print('model vs implementation (stage-wise and end to end): %d difference(s)' % len(diffs))
                for x in diffs[:6]:
                    print('  ', x)
                bad += ['%s: %s' % x for x in diffs]
            vn = (rep.get('variant') or '').split('/')[0]
            if rep.get('input') is not None and vn in FLAGS and 'package p' in t:
                pkg = 'rp'
                os.makedirs(os.path.join(work, pkg))
                import re
                t2 = re.sub(r'package p\w+', 'package ' + pkg, t, count=1)
                y = os.path.join(work, pkg, 'g.y')
                open(y, 'w').write(t2)
                r = subprocess.run([os.path.join(bindir, 'yaccgo'), 'generate', 'go'] + FLAGS[vn] + [y, os.path.join(work, pkg, 'p.go')], capture_output=True, text=True)
                open(os.path.join(work, 'go.mod'), 'w').write('module probe\ngo 1.18\n')
                open(os.path.join(work, 'main.go'), 'w').write('package main\nimport (\n"fmt"\n"os"\n"probe/rp"\n)\nfunc main() { fmt.Println(rp.Run(os.Args[1], os.Args[2])) }\n')
                rb = subprocess.run(['go', 'build', '-o', 'bin', '.'], cwd=work, capture_output=True, text=True, env=vlib.GOENV)
                if r.returncode != 0 or rb.returncode != 0:
                    print('generation/compilation:', (r.stderr + rb.stderr)[-600:])
                    bad.append('does not generate or compile')
                else:
                    rr = subprocess.run([os.path.join(work, 'bin'), rep.get('mode') or 'run', rep['input']], capture_output=True, text=True, timeout=60)
                    print('variant %s on %r now gives: %s' % (vn, rep['input'], rr.stdout.strip()[:400]))
                    print('recorded observation      : %s' % str(rep.get('observed'))[:400])
                    print('recorded expectation      : %s' % str(rep.get('expected'))[:400])
                    if rep.get('observed') and rr.stdout.strip() == str(rep.get('observed')).strip():
                        bad.append('same observation as recorded')
        else:
            print('this replay file has no self-contained input (kind %s); re-run ./check %s' % (rep.get('kind'), pid))
    finally:
        shutil.rmtree(work, ignore_errors=True)
    if bad:
        print('VIOLATION property=%s replay=%s' % (pid, path))
        for x in bad[:5]:
            print('  ' + str(x)[:300])
        return 1
    print('the case no longer shows a difference')
    return 0
