#!/usr/bin/env python3
"""One-off helper: generates a Prop_<id>.v skeleton whose theorems restate existing lemmas
(statement printed by Coq, proof `exact lemma`). The result is then edited by hand."""
import subprocess, sys, re, os
COQ='/verif/coq'
def stmt(imports, lemma):
    src='From Coq Require Import List Arith ZArith Bool Permutation.\nImport ListNotations.\nFrom YG Require Import %s.\nSet Printing Width 110.\nSet Printing Depth 1000.\nCheck %s.\n'%(imports,lemma)
    open('/tmp/_mk.v','w').write(src)
    r=subprocess.run(['coqc','-Q',COQ+'/theories','YG','/tmp/_mk.v'],capture_output=True,text=True,cwd=COQ)
    out=r.stdout
    i=out.index(':')
    return out[i+1:].strip()
def gen(pid, header, imports, items):
    out=['(* %s *)'%header,'From Coq Require Import List Arith ZArith Bool Permutation.','Import ListNotations.','From YG Require Import %s.'%imports,'']
    for name,lemma,comment in items:
        s=stmt(imports,lemma)
        out.append('(* %s *)'%comment)
        out.append('Theorem %s :\n  %s.'%(name,s.replace('\n','\n  ')))
        out.append('Proof. exact %s. Qed.'%lemma)
        out.append('Print Assumptions %s.\n'%name)
    open(COQ+'/theories/Prop_%s.v'%pid,'w').write('\n'.join(out))
if __name__=='__main__':
    pass
