#!/bin/bash
# usage: coqshow.sh file.v LINE  -- shows the proof state just before LINE (1-based)
f=$1; n=$2
head -n $((n-1)) "$f" > /tmp/_show.v
echo "Show. Abort All." >> /tmp/_show.v
cd /verif/coq && timeout 120 coqc -Q theories YG /tmp/_show.v 2>&1 | tail -${3:-40}
