#!/usr/bin/env python3
"""Runs the I6 harness (generated parsers) and the Coq model on the same grammars and inputs and
classifies every difference by the property it speaks about."""
import os, sys, json
sys.path.insert(0, os.path.dirname(os.path.abspath(__file__)))
import vlib, gram, genrun, backend

LIMIT = genrun.LIMIT


def sym_ids(g, d):
    byname = {s['name']: s['id'] for s in d['symbols']}
    return [byname.get(gram.internal_name(g, ('t', i))) for i in range(len(g['terms']))]


def model_input(g, tids, payload):
    toks = []
    for k, ch in enumerate(payload):
        c = ord(ch) - 97
        if 0 <= c < len(g['terms']) and tids[c] is not None:
            toks.append((tids[c], (k + 1) * 31 + c + 1))
        else:
            toks.append((0, 0))
    return '%d %s' % (len(toks), ' '.join('%d %d' % t for t in toks))


def fuel_for(payload):
    return 4 * (LIMIT + len(payload) + 3)


def parse_model_result(s):
    s = s.strip()
    if s.startswith('A '):
        v, rest = s[2:].split(' ', 1)
        return dict(kind='A', value=v, reds=[int(x) for x in rest.strip('[]').split()])
    if s.startswith('R '):
        p, rest = s[2:].split(' ', 1)
        return dict(kind='R', pos=int(p), reds=[int(x) for x in rest.strip('[]').split()])
    return dict(kind=s)


def agree(ir, mr, payload, variant, plain=False):
    """Does the implementation's result ir (parsed) agree with the model's mr?  Returns None or a description."""
    k = ir['kind']
    if k == 'T':
        return None            # aborted by the harness lexer; the model has no such event (compared in histories only)
    if k == 'L' or (plain and mr['kind'] == 'F'):
        if plain or mr['kind'] == 'F' or len(mr.get('reds', [])) > LIMIT:
            return None
        return 'implementation exceeded the reduction limit, model says %s' % mr
    if mr['kind'] == 'F':
        return 'model ran out of fuel, implementation says %s' % ir['raw']
    if k == 'A':
        if mr['kind'] != 'A':
            return 'implementation accepts (%s), model says %s' % (ir['raw'], mr)
        if not plain and ir['reds'] != mr['reds']:
            return 'reductions differ: impl %s model %s' % (ir['reds'], mr['reds'])
        if str(ir['value']) != str(mr['value']):
            return 'value differs: impl %s model %s' % (ir['value'], mr['value'])
        return None
    if (k == 'E' and ir['msg'].startswith('Grammar error')) or (k == 'N' and variant == 'ts' and 'Grammer error' in ir['msg']):
        if mr['kind'] != 'R':
            return 'implementation reports a syntax error (%s), model says %s' % (ir['raw'], mr)
        if not plain and ir['reds'] != mr['reds']:
            return 'reductions before the error differ: impl %s model %s' % (ir['reds'], mr['reds'])
        if ir['fetched'] != mr['pos'] + 1:
            return 'tokens requested at the error: impl %d model %d' % (ir['fetched'], mr['pos'] + 1)
        return None
    if k == 'N':
        return None if mr['kind'] == 'N' else 'implementation returned nil/null (%s), model says %s' % (ir['raw'], mr)
    # any other panic / exception
    return None if mr['kind'] == 'C' else 'implementation crashed (%s), model says %s' % (ir['raw'], mr)


def run(name, grammars, jobs, variants=genrun.ALL_VARIANTS, **kw):
    """Returns dict with the raw I6 output, the dumps, the model results and the list of disagreements
    [dict(grammar, variant, mode, payload, impl, model, what)]."""
    out = genrun.run_i6(name, grammars, jobs, variants=variants, **kw)
    # in-process dump of the grammar as the harness rendered it (variant gp's text; all variants share the grammar)
    paths = []
    for gi, (gname, g) in enumerate(grammars):
        p = os.path.join(out['work'], 'p%dgp' % gi, 'g.y')
        if not os.path.exists(p):
            p = os.path.join(out['work'], 'd%d.y' % gi)
            open(p, 'w').write(genrun.go_text(g, 'p', False))
        paths.append(p)
    dumps = vlib.run_dump(paths)
    chunks = []
    tids = {}
    for gi, ((gname, g), d) in enumerate(zip(grammars, dumps)):
        if not d.get('ok'):
            continue
        text = []
        chunks.append(text)
        acts = [(0, [])] + [(r['c'], r['coef']) for r in g['rules']]
        text.append(vlib.model_grammar_text('g%d' % gi, d, acts))
        tids[gname] = sym_ids(g, d)
        for (mode, payload) in jobs.get(gname, []):
            for vn in variants:
                vi = genrun.VARIANT_INDEX[vn]
                if mode in ('run', 'trace'):
                    text.append('X %s|%s|%s %d %d %s\n' % (vn, mode, payload or '-', vi, fuel_for(payload), model_input(g, tids[gname], payload)))
                elif mode == 'hist':
                    parts = payload.split(',')
                    text.append('H %s|%s|%s %d %d %d %s\n' % (vn, mode, payload, vi, max(fuel_for(p) for p in parts), len(parts),
                                                               ' '.join(model_input(g, tids[gname], p) for p in parts)))
    lines = vlib.model_eval_chunks([''.join(t) for t in chunks])
    model = {}
    for ln in lines:
        f = ln.split(' ', 4)
        if len(f) >= 5 and f[1] in ('run', 'hist'):
            gi = int(f[0][1:])
            vn, mode, payload = f[2].split('|')
            if payload == '-':
                payload = ''
            model[(grammars[gi][0], vn, mode, payload)] = f[4]
    diffs = []
    for gi, ((gname, g), d) in enumerate(zip(grammars, dumps)):
        if not d.get('ok'):
            continue
        for vn in variants:
            if (gname, vn) in out['compile_fail'] or (vn == 'ts' and (gname in out['ts_status'] or '__node__' in out['ts_status'])):
                continue
            if out['gen'][gname].get(vn, {}).get('rc') != 0:
                continue
            for (mode, payload) in jobs.get(gname, []):
                if mode in ('nest', 'nestr', 'tracen', 'xlate', 'rep') or (vn == 'ts' and mode == 'trace'):
                    continue
                raw = out['res'][gname][vn].get((mode, payload))
                ms = model.get((gname, vn, mode, payload))
                if raw is None or ms is None:
                    diffs.append(dict(grammar=gname, variant=vn, mode=mode, payload=payload, impl=raw, model=ms, what='missing result'))
                    continue
                if mode == 'hist':
                    irs = [genrun.parse_result(x) for x in raw.split(' ; ')]
                    mrs = [parse_model_result(x) for x in ms.split(' ; ')]
                    parts = payload.split(',')
                else:
                    irs, mrs, parts = [genrun.parse_result(raw)], [parse_model_result(ms)], [payload]
                for ir, mr, p in zip(irs, mrs, parts):
                    w = agree(ir, mr, p, vn, plain=bool(g.get('plain_actions')))
                    if w:
                        diffs.append(dict(grammar=gname, variant=vn, mode=mode, payload=payload, part=p, impl=raw, model=ms, what=w))
                        break
    out['e2e'] = backend.e2e_diffs([gname for (gname, g) in grammars], paths, dumps)
    out['dumps'] = {gname: d for (gname, g), d in zip(grammars, dumps)}
    out['model'] = model
    out['diffs'] = diffs
    out['tids'] = tids
    return out


if __name__ == '__main__':
    import random, time
    rnd = random.Random(int(sys.argv[1]) if len(sys.argv) > 1 else 1)
    n = int(sys.argv[2]) if len(sys.argv) > 2 else 30
    gs = [('c_' + k, genrun.fix_tags(g)) for k, g in gram.curated().items()]
    gs += [('r%d' % i, genrun.fix_tags(gram.random_usable(rnd, nT=rnd.randint(1, 3), nN=rnd.randint(1, 3), p_prec=0.3))) for i in range(n)]
    jobs = {}
    for gname, g in gs:
        L = 4 if len(g['terms']) <= 3 else 3
        jobs[gname] = [('run', genrun.enc(s)) for s in gram.all_strings(len(g['terms']), L)] + [('run', 'z'), ('run', 'az')]
        jobs[gname].append(('hist', 'a,b,,a,ab'))
    t0 = time.time()
    out = run('selftest', gs, jobs)
    print('time %.1f' % (time.time() - t0), 'compile_fail', out['compile_fail'], 'ts', out['ts_status'])
    print('cases', sum(len(v) for r in out['res'].values() if isinstance(r, dict) for v in r.values() if isinstance(v, dict)), 'diffs', len(out['diffs']))
    for d in out['diffs'][:10]:
        print(d)
