# /verif build: Coq development (full .vo build), extraction, model_eval.  Everything offline.
COQMF = coq/Makefile.coq
.PHONY: setup coq extract clean

setup: coq extract

coq: $(COQMF)
	cd coq && timeout 3000 $(MAKE) -f Makefile.coq -j16 --no-print-directory 2>&1 | grep -v '^COQC\|^COQDEP\|Closed under the global context' ; test $${PIPESTATUS[0]} -eq 0

$(COQMF): coq/_CoqProject
	cd coq && coq_makefile -f _CoqProject -o Makefile.coq > /dev/null

coq/_CoqProject: $(wildcard coq/theories/*.v)
	cd coq && (echo "-Q theories YG"; ls theories/*.v) > _CoqProject

extract: coq/extract/model_eval coq/extract/model_eval_pure

# model_eval: nat extracted to OCaml int (ExtrOcamlNatInt) - the oracle of the quick checks
coq/extract/model_eval: coq/extract/ExtractInt.v coq/extract/driver.ml coq/extract/natconv_int.ml $(wildcard coq/theories/*.v)
	rm -rf coq/extract/int && mkdir -p coq/extract/int && cp coq/extract/ExtractInt.v coq/extract/driver.ml coq/extract/int/ && cp coq/extract/natconv_int.ml coq/extract/int/natconv.ml
	cd coq/extract/int && timeout 600 coqc -Q ../../theories YG ExtractInt.v > /dev/null && \
	  (ocamlfind ocamlopt -O3 -w -a model.mli model.ml natconv.ml driver.ml -o ../model_eval 2>/dev/null || \
	   ocamlfind ocamlopt -w -a model.mli model.ml natconv.ml driver.ml -o ../model_eval)

# model_eval_pure: ExtrOcamlBasic only (nat, positive, Z stay the extracted inductive types) - cross-check of the fast build
coq/extract/model_eval_pure: coq/extract/Extract.v coq/extract/driver.ml coq/extract/natconv_pure.ml $(wildcard coq/theories/*.v)
	rm -rf coq/extract/pure && mkdir -p coq/extract/pure && cp coq/extract/Extract.v coq/extract/driver.ml coq/extract/pure/ && cp coq/extract/natconv_pure.ml coq/extract/pure/natconv.ml
	cd coq/extract/pure && timeout 600 coqc -Q ../../theories YG Extract.v > /dev/null && \
	  (ocamlfind ocamlopt -O3 -w -a model.mli model.ml natconv.ml driver.ml -o ../model_eval_pure 2>/dev/null || \
	   ocamlfind ocamlopt -w -a model.mli model.ml natconv.ml driver.ml -o ../model_eval_pure)

clean:
	rm -rf coq/theories/*.vo coq/theories/*.vok coq/theories/*.vos coq/theories/*.glob coq/theories/.*.aux coq/Makefile.coq* coq/.Makefile.coq.d coq/extract/model* coq/extract/int coq/extract/pure coq/extract/*.cm* coq/extract/*.o coq/extract/*.vo* coq/extract/*.glob .work
SHELL = /bin/bash
