# /verif build: Coq development (full .vo build), extraction, model_eval.  Everything offline.
COQMF = coq/Makefile.coq
.PHONY: setup coq extract clean

setup: coq extract

coq: $(COQMF)
	cd coq && timeout 3000 $(MAKE) -f Makefile.coq -j16 --no-print-directory 2>&1 | grep -v '^COQC\|^COQDEP\|Closed under the global context' ; test $${PIPESTATUS[0]} -eq 0

$(COQMF): coq/_CoqProject
	cd coq && coq_makefile -f _CoqProject -o Makefile.coq > /dev/null

coq/_CoqProject: $(wildcard coq/theories/*.v)
	cd coq && (echo "-Q theories YG"; ls theories/*.v) > _CoqProject

extract: coq/extract/model_eval

coq/extract/model_eval: coq/extract/Extract.v coq/extract/driver.ml $(wildcard coq/theories/*.v)
	cd coq/extract && rm -f model.ml model.mli && timeout 600 coqc -Q ../theories YG Extract.v > /dev/null && \
	  ocamlfind ocamlopt -O3 -w -a model.mli model.ml driver.ml -o model_eval 2>/dev/null || \
	  ocamlfind ocamlopt -w -a model.mli model.ml driver.ml -o model_eval

clean:
	rm -rf coq/theories/*.vo coq/theories/*.vok coq/theories/*.vos coq/theories/*.glob coq/theories/.*.aux coq/Makefile.coq* coq/.Makefile.coq.d coq/extract/model* coq/extract/*.cm* coq/extract/*.o coq/extract/*.vo* coq/extract/*.glob .work
SHELL = /bin/bash
